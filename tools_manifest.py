#!/usr/bin/env python3
"""Regenerate MANIFEST.json from the table below (kept in one place so it is always valid)."""
import json
from pathlib import Path

V = Path(__file__).resolve().parent
BASE = "cd /repo && /venv/bin/python -m pytest -ra -q -p no:cacheprovider --timeout=900 --continue-on-collection-errors"

CHECKS = {
    'C09': dict(cat='model_checking', ref='2/C09',
                text='stateless exploration of the real snapshot/restore code under a deterministic scheduler: every schedule '
                     'and backend completion order with <=1 (quick) / <=2 (thorough) deviations from the default, on 30 harnesses; '
                     'oracle: result equals source, no exception/hang, in-flight <= N, all slots returned at quiescence'
                     ' Faults: backend calls, source reads, target writes; loop-bound asyncio primitives raced at line level when worker threads call them (two deviations).',
                note='controlled Lock/Event/Queue/Executor/Future replacements are faithful; preemption at synchronisation '
                     'operations and backend entries (plus every line of the shared-state closures in the thorough line harnesses); N<=2',
                technique='deviation-bounded stateless model checking of the implementation (deterministic thread + event-loop scheduler)',
                engine='E1'),
    'C02': dict(cat='model_checking', ref='2/C02', engine='E2+E1',
                text='explicit-state BFS over histories of real snapshot/delete/clean commands by owner/shared/independent users '
                     '(and an unencrypted repository), depth 3-5; every generated state gets the full invariant (owner restore + '
                     'independent format reader), every transition the temporal oracle "no chunk is removed while a present '
                     'snapshot references it"; plus all completion orders (<=1/2 deviations) of pairs of overlapping '
                     'non-destructive commands from two Repository objects',
                note='canonical state merging by (snapshots in time order, per-family chunk names); fixed 8-byte chunks; 3 file sets',
                technique='explicit-state BFS over the real transition function + deviation-bounded schedule exploration'),
    'C06': dict(cat='model_checking', ref='2/C06', engine='E2',
                text='all add-key chains (independent/shared/clone x KDF settings incl. BLAKE2b and >64-byte passwords) up to depth '
                     '2/3 with the complete unlock matrix over passwords and near-miss passwords; all-pairs visibility, restore scope '
                     'and refusal-before-mutation of foreign deletes; BFS over histories with every user acting against every other'
                     ' Also ONE Repository object unlocked by two users in turn (every ordered pair, every state within two commands), and listings with the name column only.',
                note='clone modelled as shared key; scrypt n in {2,4}', technique='explicit-state BFS + exhaustive key-graph enumeration'),
    'C07': dict(cat='model_checking', ref='2/C07', engine='E2',
                text='BFS over crash-free histories: in every state chunk area == names of distinct chunks referenced (independent '
                     'reader), no payload uploaded under an existing name, families never alias; second pass with one long-lived '
                     'Repository object per user over all histories of length <= 3/4'
                     ' Session histories also on one Repository object that is unlocked again whenever the actor changes.',
                note='fixed 8-byte chunks; file sets with identical files, shared prefixes, repeated blocks',
                technique='explicit-state BFS over the real transition function'),
    'C08': dict(cat='model_checking', ref='2/C08', engine='E2',
                text='BFS from clean and planted states (orphans per family, foreign tenant, bystander objects): delete leaves no chunk '
                     'referenced only by the deleted snapshots and removes nothing else, clean leaves exactly the referenced chunks of '
                     'the caller family, everything foreign keeps its bytes, also when one backend deletion fails'
                     ' Plus session histories on one Repository object for all users.',
                note='fixed 8-byte chunks; foreign tenant never acts', technique='explicit-state BFS + single-fault enumeration on delete calls'),
    'C03': dict(cat='fault_enumeration', ref='2/C03', engine='E1',
                text='(a) every prefix of every mutation sequence of snapshot/delete/clean under all completion orders (coroutine '
                     'backend: exhaustive; plain backend: <=1/2 deviations) gets the recovery oracle (all visible snapshots complete '
                     'and restorable, listings, new snapshot, clean exact); (b) the real Local.upload/upload_stream/delete killed in a '
                     'forked child at every interposed file-system step and torn write; (c) every backend call index failing for good '
                     'with two exception kinds'
                     ' (c2) the same Repository object goes on after the failed command; file-system steps are taken at the os/io level (mc/fsteps), independent of how the adapter spells its file handling; Local.clean included',
                note='kill loses user-space buffers but not what reached the kernel; fixed 8-byte chunks; 11 scenarios',
                technique='exhaustive crash-point / fault-position enumeration over explored schedules'),
    'C10': dict(cat='exploration', ref='2/C10', engine='E3',
                text='complete products: C++ next_cut rebuilt from the working tree vs scalar reference, guard-byte independence and an '
                     'AddressSanitizer pass over every (min,max)<=10/13 x keys x buffers over a 3-word alphabet; real adapter over every '
                     'segmentation with <=2/3 cuts (+empty pieces, one-byte pieces): lossless, non-empty, bounds, alignment, '
                     'determinism across calls, independence from splitting'
                     ' Two chunker generators advanced alternately by one thread: every schedule with <= 4 switches.',
                note='ctypes glue replaces pybind11 conversion; small parameters only', technique='exhaustive bounded enumeration of inputs and segmentations'),
    'C11': dict(cat='exploration', ref='2/C11', engine='E3',
                text='every suffix over a 3-word alphabet x all pairs of aligned prefixes (coincidence after first common boundary), '
                     'every distant byte flip (locality), a completely enumerated family of high-entropy streams x edit kinds x lengths x '
                     'aligned positions (re-synchronisation within 1024*max), all key pairs',
                note='re-synchronisation bound is probabilistic (<1e-33 per case under hash independence)',
                technique='exhaustive bounded enumeration of inputs'),
    'C01': dict(cat='exploration', ref='2/C01', engine='E3',
                text='snapshot + restore of every tree of the menu (sizes on both sides of alignment/min/max/2*max, identical and '
                     'suffix-sharing contents, non-ASCII / non-UTF-8 / spaced names) x 8 argument lists (repeats, overlaps, symlinks) at '
                     'the default configuration, and every single deviation (concurrency 1/5, 4 more chunkers, every cipher x hash, 4 '
                     'pre-existing target states) x reduced trees; pairs of deviations and 16 MiB read-piece crossings in thorough; '
                     'oracle: exact file set, bytes, mtime_ns, returned paths',
                note='a symlink argument is recorded under its resolved path (code behaviour); tmpfs scratch',
                technique='exhaustive bounded enumeration of inputs and configurations'),
    'C04': dict(cat='fault_enumeration', ref='2/C04', engine='E3',
                text='every bit flip, truncation length, extension, pairwise swap, replay under another name and deletion of every chunk '
                     'and snapshot object of three repositories (unencrypted, AES-GCM, ChaCha20), pairs of damages, each followed by a '
                     'restore that must raise or reproduce the original tree; also with one long-lived Repository and with a retry '
                     'sharing the snapshot cache of the failed attempt'
                     ' Cache modes: retry with cache, cache left cut short / empty by an interrupted run.',
                note='objects of a few hundred bytes; adversary without keys; removed snapshot object == deleted snapshot',
                technique='exhaustive corruption enumeration'),
    'C05': dict(cat='exploration', ref='2/C05', engine='E3',
                text='every cipher x key size x hash setting x {fresh, long-lived Repository} over an init/add-key/snapshot/delete/clean '
                     'history with real randomness: every payload ever written, every name, key file and stdout searched for 8-byte '
                     'windows of every secret (raw/hex/base64); independent reader checks names are keyed MACs, blobs are '
                     'nonce+ciphertext+tag and no (key, nonce) pair repeats'
                     ' Modes also: cache directory shared with an unencrypted repository; stale existence answers. A failing command does not end the history.',
                note='bounded taint search, not a cryptographic proof', technique='exhaustive configuration enumeration with taint search'),
    'C14': dict(cat='exploration', ref='2/C14', engine='E3+E1',
                text='replicat writes / independent reader decodes (trees x every cipher x hash, chunkers, KDFs, both backend kinds, all '
                     'completion orders of a snapshot with repeated chunks); independent writer emits (current and pre-1.3 metadata, '
                     'shuffled chunk entries, empty files) / replicat restores'
                     ' Plus one object writing for two independent keys in turn.',
                note='reference reader/writer written from the documented scheme, import nothing from replicat',
                technique='exhaustive configuration enumeration against an independent format implementation'),
    'C15': dict(cat='model_checking', ref='2/C15', engine='E2',
                text='all histories of <=3 snapshots over paths whose versions appear/change/disappear x chronological and reverse '
                     'creation order x 3 microsecond patterns x {unencrypted, encrypted}: restore under every snapshot filter x file '
                     'filter against the reference selection (newest matching snapshot containing the path), listings under column '
                     'subsets against the ledger, every printed snapshot name fed back to delete',
                note='distinct timestamps; atime and chunk-count columns not modelled', technique='exhaustive history enumeration against a reference model'),
    'C17': dict(cat='exploration', ref='2/C17', engine='E3',
                text='148 settings deviations (every primitive name right/wrong/unknown x parameter values on both sides of every limit, '
                     'mistyped, unknown keys, structure) singly and in all cross-section pairs, plus long passwords: accepted => a fresh '
                     'process unlocks, snapshots and restores a multi-chunk tree and no near-miss password unlocks; rejected => nothing '
                     'stored; add-key with every KDF variant'
                     " Optionally another repository sharing the user's cache directory between init and first use.",
                note='default scrypt cost lowered to n=16 in the harness for cases leaving the KDF at its default',
                technique='exhaustive configuration enumeration (all single and pairwise deviations)'),
    'C18': dict(cat='model_checking', ref='2/C18', engine='E2',
                text='BFS over command histories of four clients (two processes of the owner, a shared-key and an independent-key user) '
                     'with one shared or private cache directories; every transition is run with the cache, with the cache disabled '
                     '(same backend state, randomness and clock) and with each single cache entry missing / empty / truncated; '
                     'exception class, stdout, return values, restored tree and resulting backend objects must agree'
                     ' Name-addressed list-files/restore (live and deleted names) and stale private caches.',
                note='one corrupted entry at a time; all prefix lengths only from selected deep states',
                technique='explicit-state BFS with twin execution (differential oracle) and crash-state enumeration of cache entries'),
    'C19': dict(cat='exploration', ref='2/C19', engine='E3',
                text='the real main() driven through argv / environment / TOML file / --profile for every option x every subset of its '
                     'sources x string and native TOML values x commands, for local, s3c, s3, b2 and a custom backend found through the '
                     'namespace package (int/bool/str/float options, coercion-sensitive values); effective value and type against a '
                     'five-line precedence function; mutually exclusive pairs rejected'
                     ' The configuration file at its default location as well as through --config; files naming an unreadable password/key file. Effective values observed at the Repository/backend constructor interface.',
                note='CLI/config modules re-imported per case; the command handler is replaced by a recorder that calls the real '
                     '_instantiate_backend', technique='exhaustive configuration enumeration against a reference precedence function'),
    'C20': dict(cat='model_checking', ref='2/C20', engine='E1',
                text='k in {1,2,3} streams on one RateLimitedIO as controlled threads under a virtual wall clock (underlying latency 0 / '
                     'half / exact / double the nominal time, exact and 10% oversleep), every schedule with <=1/2 deviations: all windows '
                     'between transfer instants within L*T + allowance, data complete and in order; every operation sequence of length '
                     '<=4 through the limiter and tqdm wrappers against BytesIO',
                note='virtual time: only underlying I/O and sleep take time', technique='deviation-bounded schedule exploration with a virtual clock'),
    'C16': dict(cat='exploration', ref='2/C16', engine='E3',
                text='the real S3Compatible/S3 adapters against a fake service installed as httpx transport: every request captured on '
                     'the wire (one object name/prefix per character class x all operations, streams of 0/1/3 chunks, 1-3 listing pages '
                     'with continuation tokens, 4 clocks incl. midnight and year crossing inside one client, http/https, host with port, '
                     '2 credential sets, a transient fault at every position of a streamed upload) is re-verified by an independent '
                     'SigV4 implementation incl. payload hash and content length'
                     ' One fault incl. same- and cross-origin 3xx redirects at every request of every operation.',
                note='"+" in a received query tried as space and literally', technique='exhaustive input-class enumeration against an independent SigV4 verifier'),
    'C12': dict(cat='fault_enumeration', ref='2/C12', engine='E3',
                text='real S3Compatible and B2 adapters on fake services and the real Local adapter with its file-system calls interposed: '
                     'for every operation, every request role / file-system step x 14 fault kinds (connect error, reset after k request '
                     'chunks, 5xx/429/401/408 with and without retry-after, response dropped after k chunks; OSError at each step) x '
                     'c = 1..measured budget consecutive faults, forever, and pairs at two positions; within budget the call returns with '
                     'exactly the intended bytes stored / delivered and nothing temporary left, persistent faults end in an exception after '
                     'a bounded number of requests'
                     ' Local fault positions are os/io-level calls (mc/fsteps), an attempt ending when the retry policy sleeps.',
                note='retry budget measured per role and fault kind; listing is only required to be bounded', technique='exhaustive fault-position enumeration'),
    'C13': dict(cat='model_checking', ref='2/C13', engine='E2',
                text='real Local (6 spellings of the repository path), S3Compatible and B2 (fake services, listing pages of 2) against a dict '
                     'model: every subset of 7 object names as a state (built through the adapter), in every state all observers '
                     '(exists/download/download_stream x names, list x 10 prefixes) and all 8 mutations x 7 names compared with the model '
                     'and the raw store; plus all sequences of <=3/4 mutations over 3 names'
                     ' Mutation order rotates with the name; resets go through the adapter; exists() after every step of a sequence.',
                note='fake services implement the documented wire behaviour; atomic replacement under a concurrent reader is decided by C03(b)',
                technique='explicit-state enumeration against a reference model'),
}
NOT_YET = {}

props = [json.loads(l) for l in (V / 'properties.jsonl').read_text().splitlines() if l.strip()]
checks, na = [], []
for p in props:
    pid = p['id']
    if pid in CHECKS:
        c = CHECKS[pid]
        checks.append({
            'property_id': pid,
            'quick_cmd': f'./check {pid} --tier quick',
            'thorough_cmd': f'./check {pid} --tier thorough',
            'evidence_file': f'/verif/evidence/{pid}.json',
            'replay_cmd_template': './check --replay {path}',
            'engine': c['engine'],
            'level_claimed': {'category': c['cat'], 'text': c['text'], 'design_ref': c['ref']},
            'level_note': c['note'],
            'technique': c['technique'],
        })
    else:
        na.append({'property_id': pid, 'reason': NOT_YET.get(pid, 'check not built yet (work in progress; see DESIGN.md section 2)')})

m = {
    'version': 1,
    'setup_cmd': 'cd /verif && /venv/bin/python -m mc.native',
    'hooks': {
        'guard': 'REPLICAT_VERIF',
        'enable': 'no source hooks: the harness replaces module attributes of replicat at run time (threading, queue, executors, clocks, os.urandom); nothing in /repo is guarded',
        'baseline_off_cmd': BASE,
        'source_commits': [],
        'add_only': True,
    },
    'engines': [
        {'name': 'E1', 'path': 'mc/dsched.py + mc/explore.py', 'serves_properties': ['C09', 'C02', 'C03', 'C14', 'C20'],
         'kind_free_text': 'deterministic scheduler for real threads + virtual asyncio loop; deviation-bounded stateless explorer'},
        {'name': 'E2', 'path': 'mc/hist.py', 'serves_properties': ['C02', 'C06', 'C07', 'C08', 'C13', 'C15', 'C18'],
         'kind_free_text': 'explicit-state BFS over command histories; transitions run the real commands with fresh Repository objects'},
        {'name': 'E3+E1', 'path': 'checks/C14.py', 'serves_properties': ['C14'], 'kind_free_text': 'product enumeration + completion-order exploration'},
        {'name': 'E2+E1', 'path': 'mc/hist.py + mc/explore.py', 'serves_properties': ['C02'], 'kind_free_text': 'both'},
        {'name': 'E3', 'path': 'mc/common.py (pmap) + per-check menus', 'serves_properties': ['C01', 'C04', 'C05', 'C10', 'C11', 'C12', 'C14', 'C16', 'C17', 'C19'],
         'kind_free_text': 'complete product enumeration of small menus, sharded over 16 processes'},
    ],
    'checks': checks,
    'not_applicable': na,
    'notes': 'All checks run the real replicat code from /repo (REPLICAT_SRC overrides) and the C++ chunker rebuilt from /repo/src/adapters.cpp.',
}
(V / 'MANIFEST.json').write_text(json.dumps(m, indent=1) + '\n')
print('checks', len(checks), 'not_applicable', len(na))
