#!/usr/bin/env python3
"""Regenerate MANIFEST.json from the table below (kept in one place so it is always valid)."""
import json
from pathlib import Path

V = Path(__file__).resolve().parent
BASE = "cd /repo && /venv/bin/python -m pytest -ra -q -p no:cacheprovider --timeout=900 --continue-on-collection-errors"

CHECKS = {
    'C09': dict(cat='model_checking', ref='2/C09',
                text='stateless exploration of the real snapshot/restore code under a deterministic scheduler: every schedule '
                     'and backend completion order with <=1 (quick) / <=2 (thorough) deviations from the default, on 30 harnesses; '
                     'oracle: result equals source, no exception/hang, in-flight <= N, all slots returned at quiescence',
                note='controlled Lock/Event/Queue/Executor/Future replacements are faithful; preemption at synchronisation '
                     'operations and backend entries (plus every line of the shared-state closures in the thorough line harnesses); N<=2',
                technique='deviation-bounded stateless model checking of the implementation (deterministic thread + event-loop scheduler)',
                engine='E1'),
}
NOT_YET = {}

props = [json.loads(l) for l in (V / 'properties.jsonl').read_text().splitlines() if l.strip()]
checks, na = [], []
for p in props:
    pid = p['id']
    if pid in CHECKS:
        c = CHECKS[pid]
        checks.append({
            'property_id': pid,
            'quick_cmd': f'./check {pid} --tier quick',
            'thorough_cmd': f'./check {pid} --tier thorough',
            'evidence_file': f'/verif/evidence/{pid}.json',
            'replay_cmd_template': './check --replay {path}',
            'engine': c['engine'],
            'level_claimed': {'category': c['cat'], 'text': c['text'], 'design_ref': c['ref']},
            'level_note': c['note'],
            'technique': c['technique'],
        })
    else:
        na.append({'property_id': pid, 'reason': NOT_YET.get(pid, 'check not built yet (work in progress; see DESIGN.md section 2)')})

m = {
    'version': 1,
    'setup_cmd': 'cd /verif && /venv/bin/python -m mc.native',
    'hooks': {
        'guard': 'REPLICAT_VERIF',
        'enable': 'no source hooks: the harness replaces module attributes of replicat at run time (threading, queue, executors, clocks, os.urandom); nothing in /repo is guarded',
        'baseline_off_cmd': BASE,
        'source_commits': [],
        'add_only': True,
    },
    'engines': [
        {'name': 'E1', 'path': 'mc/dsched.py + mc/explore.py', 'serves_properties': ['C09'],
         'kind_free_text': 'deterministic scheduler for real threads + virtual asyncio loop; deviation-bounded stateless explorer'},
    ],
    'checks': checks,
    'not_applicable': na,
    'notes': 'All checks run the real replicat code from /repo (REPLICAT_SRC overrides) and the C++ chunker rebuilt from /repo/src/adapters.cpp.',
}
(V / 'MANIFEST.json').write_text(json.dumps(m, indent=1) + '\n')
print('checks', len(checks), 'not_applicable', len(na))
