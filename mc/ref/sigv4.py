"""Independent AWS Signature Version 4 verifier (written from the published
algorithm: canonical request / string to sign / signing key), starting from the
bytes on the wire: method, raw request target, received headers, body."""
from __future__ import annotations

import hashlib
import hmac
import re

UNRESERVED = b'ABCDEFGHIJKLMNOPQRSTUVWXYZabcdefghijklmnopqrstuvwxyz0123456789-_.~'


def uri_encode(data: bytes, encode_slash=True) -> str:
    out = []
    for b in data:
        c = bytes([b])
        if c in UNRESERVED or (c == b'/' and not encode_slash):
            out.append(c.decode())
        else:
            out.append('%%%02X' % b)
    return ''.join(out)


def pct_decode(s: bytes, plus_as_space=False) -> bytes:
    if plus_as_space:
        s = s.replace(b'+', b' ')
    out = bytearray()
    i = 0
    while i < len(s):
        if s[i:i + 1] == b'%' and re.fullmatch(rb'[0-9A-Fa-f]{2}', s[i + 1:i + 3] or b''):
            out.append(int(s[i + 1:i + 3], 16))
            i += 3
        else:
            out.append(s[i])
            i += 1
    return bytes(out)


def _hmac(key, msg):
    return hmac.new(key, msg, hashlib.sha256).digest()


def verify(method: str, raw_target: bytes, headers, body: bytes, *, secret: str, expect_key_id=None, expect_region=None,
           expect_host=None):
    """headers: list of (lowercase name bytes, value bytes). Returns list of problems (empty = valid)."""
    problems = []
    h = {}
    for k, v in headers:
        h.setdefault(k.decode('ascii').lower(), []).append(v.decode('latin-1').strip())
    auth = (h.get('authorization') or [''])[0]
    m = re.fullmatch(r'AWS4-HMAC-SHA256 Credential=([^/]+)/(\d{8})/([^/]+)/([^/]+)/aws4_request, ?SignedHeaders=([a-z0-9;-]+), ?'
                     r'Signature=([0-9a-f]{64})', auth)
    if not m:
        return ['authorization header malformed: ' + auth[:80]]
    key_id, date, region, service, signed, signature = m.groups()
    if expect_key_id is not None and key_id != expect_key_id:
        problems.append('credential key id')
    if expect_region is not None and region != expect_region:
        problems.append('credential region')
    if service != 's3':
        problems.append('credential service')
    amzdate = (h.get('x-amz-date') or [''])[0]
    if not re.fullmatch(r'\d{8}T\d{6}Z', amzdate):
        problems.append('x-amz-date format: ' + amzdate)
    elif amzdate[:8] != date:
        problems.append('credential scope date differs from x-amz-date')
    signed_list = signed.split(';')
    if signed_list != sorted(signed_list):
        problems.append('signed headers not sorted')
    for required in ('host', 'x-amz-content-sha256', 'x-amz-date'):
        if required not in signed_list:
            problems.append(f'{required} not signed')
    if expect_host is not None and (h.get('host') or [''])[0] != expect_host:
        problems.append('host header is not the host connected to')
    declared = (h.get('x-amz-content-sha256') or [''])[0]
    if declared != hashlib.sha256(body).hexdigest():
        problems.append('x-amz-content-sha256 does not match the body sent')
    cl = h.get('content-length')
    if cl is not None and int(cl[0]) != len(body):
        problems.append('content-length does not match the body sent')
    if cl is None and body:
        problems.append('body without content-length')
    path, _, query = raw_target.partition(b'?')
    canonical_uri = uri_encode(pct_decode(path), encode_slash=False) or '/'
    candidates = []
    for plus_as_space in (True, False):
        pairs = []
        for part in (query.split(b'&') if query else []):
            k, _, v = part.partition(b'=')
            pairs.append((uri_encode(pct_decode(k, plus_as_space)), uri_encode(pct_decode(v, plus_as_space))))
        candidates.append('&'.join(f'{k}={v}' for k, v in sorted(pairs)))
    ok = False
    for cq in candidates:
        ch = ''.join(f'{name}:{",".join(h.get(name, [""]))}\n' for name in signed_list)
        creq = '\n'.join([method, canonical_uri, cq, ch, signed, declared])
        sts = '\n'.join(['AWS4-HMAC-SHA256', amzdate, f'{date}/{region}/{service}/aws4_request',
                         hashlib.sha256(creq.encode()).hexdigest()])
        k = _hmac(('AWS4' + secret).encode(), date.encode())
        k = _hmac(k, region.encode())
        k = _hmac(k, service.encode())
        k = _hmac(k, b'aws4_request')
        if hmac.new(k, sts.encode(), hashlib.sha256).hexdigest() == signature:
            ok = True
            break
    if not ok:
        problems.append('signature does not verify')
    return problems
