"""Scalar reference for the GCLMUL chunker (written from src/adapters.cpp's
arithmetic description: carry-less multiply in GF(2)[x], reduction by
x^64 + x^4 + x^3 + x + 1, window = 8 bytes around the candidate offset).
Pure Python integers; no SIMD, no replicat imports."""
from __future__ import annotations

MASK = (1 << 64) - 1


def clmul(a: int, b: int) -> int:
    r = 0
    while b:
        if b & 1:
            r ^= a
        a <<= 1
        b >>= 1
    return r


class RefChunker:
    def __init__(self, min_length, max_length, key: bytes):
        if len(key) != 16:
            raise ValueError('key must contain exactly 16 characters')
        if min_length > max_length:
            raise ValueError('Minimum length is greater than the maximum one')
        self.mn, self.mx = min_length, max_length
        self.k0 = int.from_bytes(key[:8], 'little')
        self.k1 = int.from_bytes(key[8:], 'little')
        if self.k0 == 0:
            raise ValueError('Bad key contents')
        self._memo = {}

    def key(self, window: bytes) -> int:
        v = self._memo.get(window)
        if v is None:
            w = int.from_bytes(window, 'little')
            p = clmul(self.k0, w)
            lo, hi = p & MASK, p >> 64
            q = clmul(27, hi)
            v = (self.k1 ^ q ^ lo) & MASK
            self._memo[window] = v
        return v

    def reads_past(self, size, final) -> bool:
        """Would the scan touch bytes at index >= size?"""
        if final and size < 2 * self.mx:
            return False
        if not final and size < self.mx:
            return False
        last = ((self.mx - 1) // 4) * 4
        return last >= 4 and last + 4 > size

    def next_cut(self, buf: bytes, final: bool) -> int:
        size, mn, mx = len(buf), self.mn, self.mx
        if final and size < 2 * mx:
            if size <= mx:
                return size
            if size < mx + mn:
                return size // 2
            return mx
        if not final and size < mx:
            return 0
        max_index, max_value = 0, 0
        for i in range(4, mx, 4):
            w = buf[i - 4:i + 4]
            if len(w) < 8:
                raise IndexError('window outside the buffer')
            k = self.key(w)
            if k > max_value:
                max_index, max_value = i, k
        if max_index < mn:
            max_index = (mn + 3) & -4
        return max_index


def valid_pair(mn, mx):
    """1 <= min <= max and an aligned length exists in [min, max]."""
    return 1 <= mn <= mx and ((mn + 3) & -4) <= mx
