"""Independent reader and writer for the replicat repository format, written from
the README ("Security"/"Custom backends" sections) and the documented scheme.
Imports nothing from replicat: hashlib, cryptography, json, base64 only.

Scheme
  config        JSON {hashing:{name,..}, chunking:{name,min_length,max_length}, encryption:{cipher:{name,..}}}
  key file      JSON {kdf:{name,..}, kdf_params:!b, private:!b(enc with user key) | object}
  user key      KDF(password, salt=kdf_params)
  private       {shared_key, shared_kdf, shared_kdf_params, mac, mac_params, chunker_params}
  chunk name    data/T[:2]/T[2:4]/T[4:]-N   N=hex(MAC(digest)) T=hex(MAC(MAC(digest)))   (unencrypted: N=T=hex(digest))
  chunk body    nonce || AEAD(key=KDF(shared_key, ctx=digest, salt=shared_kdf_params)).encrypt(plaintext)
  snapshot name snapshots/T[:2]/T[2:]-N     N=hex(H(body)) T=hex(MAC(H(body)))            (unencrypted: T=N)
  snapshot body JSON {chunks: !b enc(key=KDF(shared_key, ctx=H(data blob))), data: !b enc(key=user key)}
  byte strings  {"!b": base64}
"""
from __future__ import annotations

import base64
import hashlib
import json
import os

from cryptography.exceptions import InvalidTag
from cryptography.hazmat.primitives.ciphers.aead import AESGCM, ChaCha20Poly1305
from cryptography.hazmat.primitives.kdf.scrypt import Scrypt


class FormatError(Exception):
    pass


def _hook(o):
    if len(o) == 1 and '!b' in o:
        return base64.standard_b64decode(o['!b'])
    return o


def loads(data):
    return json.loads(data, object_hook=_hook)


def _default(o):
    if isinstance(o, (bytes, bytearray, memoryview)):
        return {'!b': base64.standard_b64encode(bytes(o)).decode('ascii')}
    raise TypeError(type(o))


def dumps(obj) -> bytes:
    return json.dumps(obj, separators=(',', ':'), default=_default).encode('ascii')


# ---------------------------------------------------------------- primitives
def hasher(cfg):
    name = cfg['name']
    if name == 'blake2b':
        n = cfg.get('length', 64)
        return lambda data: hashlib.blake2b(data, digest_size=n).digest()
    if name == 'sha2':
        f = getattr(hashlib, 'sha%d' % cfg.get('bits', 512))
        return lambda data: f(data).digest()
    if name == 'sha3':
        f = getattr(hashlib, 'sha3_%d' % cfg.get('bits', 512))
        return lambda data: f(data).digest()
    raise FormatError(f'unknown hash {name}')


class Cipher:
    def __init__(self, cfg):
        name = cfg['name']
        if name == 'aes_gcm':
            self.cls, self.key_bytes = AESGCM, cfg.get('key_bits', 256) // 8
            self.nonce_bytes = cfg.get('nonce_bits', 96) // 8
        elif name == 'chacha20_poly1305':
            self.cls, self.key_bytes, self.nonce_bytes = ChaCha20Poly1305, 32, 12
        else:
            raise FormatError(f'unknown cipher {name}')

    def decrypt(self, blob, key):
        if len(key) != self.key_bytes:
            raise FormatError('key length')
        nonce, ct = blob[:self.nonce_bytes], blob[self.nonce_bytes:]
        try:
            return self.cls(key).decrypt(nonce, ct, None)
        except InvalidTag:
            raise FormatError('authentication failed') from None
        except ValueError as e:
            # too short to hold a nonce and a tag: not a ciphertext at all
            raise FormatError(f'not a ciphertext: {e}') from None

    def encrypt(self, data, key, nonce=None):
        nonce = nonce if nonce is not None else os.urandom(self.nonce_bytes)
        return nonce + self.cls(key).encrypt(nonce, data, None)


def kdf(cfg):
    name = cfg['name']
    if name == 'scrypt':
        def derive(material, params, context=b''):
            return Scrypt(salt=params + context, length=cfg['length'], n=cfg.get('n', 1 << 20),
                          r=cfg.get('r', 8), p=cfg.get('p', 1)).derive(material)
        return derive
    if name == 'blake2b':
        def derive(material, params, context=b''):
            if len(material) > 64:
                raise FormatError('BLAKE2b key material longer than 64 bytes cannot be used under the documented scheme')
            return hashlib.blake2b(context, salt=params, digest_size=cfg.get('length', 64), key=material).digest()
        return derive
    raise FormatError(f'unknown kdf {name}')


def mac_fn(cfg, key):
    if cfg['name'] != 'blake2b':
        raise FormatError('unknown mac')
    n = cfg.get('length', 64)
    return lambda msg: hashlib.blake2b(msg, digest_size=n, key=key).digest()


# ---------------------------------------------------------------- reader
class Reader:
    """Decodes a repository given its object map and (for encrypted ones) a
    password and key file."""

    def __init__(self, objects, password=None, keyfile=None):
        self.o = objects
        self.config = loads(objects['config'])
        self.H = hasher(self.config['hashing'])
        enc = self.config.get('encryption')
        self.encrypted = enc is not None
        if self.encrypted:
            self.cipher = Cipher(enc['cipher'])
            if keyfile is None or password is None:
                raise FormatError('key needed')
            key = loads(keyfile) if isinstance(keyfile, (bytes, str)) else keyfile
            self.userkey = kdf(key['kdf'])(password, key['kdf_params'])
            priv = key['private']
            if isinstance(priv, bytes):
                priv = loads(self.cipher.decrypt(priv, self.userkey))
            self.private = priv
            self.mac = mac_fn(priv['mac'], priv['mac_params'])
            self.shared = lambda ctx: kdf(priv['shared_kdf'])(priv['shared_key'], priv['shared_kdf_params'], ctx)
        else:
            self.mac = None

    # names
    def chunk_location(self, digest):
        if self.encrypted:
            n = self.mac(digest)
            t = self.mac(n)
        else:
            n = t = digest
        n, t = n.hex(), t.hex()
        return f'data/{t[:2]}/{t[2:4]}/{t[4:]}-{n}'

    def snapshot_location(self, body):
        d = self.H(body)
        t = self.mac(d) if self.encrypted else d
        n, t = d.hex(), t.hex()
        return f'snapshots/{t[:2]}/{t[2:]}-{n}'

    @staticmethod
    def split_chunk_location(loc):
        head, _, name = loc.rpartition('-')
        parts = head.split('/')
        return name, parts[1] + parts[2] + parts[3]

    @staticmethod
    def split_snapshot_location(loc):
        head, _, name = loc.rpartition('-')
        parts = head.split('/')
        return name, parts[1] + parts[2]

    def owns_chunk_name(self, loc):
        name, tag = self.split_chunk_location(loc)
        if not self.encrypted:
            return True
        try:
            return self.mac(bytes.fromhex(name)).hex() == tag
        except ValueError:
            return False

    def owns_snapshot_name(self, loc):
        name, tag = self.split_snapshot_location(loc)
        if not self.encrypted:
            return True
        try:
            return self.mac(bytes.fromhex(name)).hex() == tag
        except ValueError:
            return False

    # objects
    def chunk_plain(self, digest):
        blob = self.o[self.chunk_location(digest)]
        data = self.cipher.decrypt(blob, self.shared(digest)) if self.encrypted else blob
        if self.H(data) != digest:
            raise FormatError('chunk digest mismatch')
        return data

    def snapshot(self, loc):
        """-> dict(chunks=[digest], data=dict|None (None: other user's private part))"""
        body = self.o[loc]
        name, tag = self.split_snapshot_location(loc)
        if self.H(body).hex() != name:
            raise FormatError('snapshot name is not the hash of its body')
        obj = loads(body)
        if not self.encrypted:
            return obj
        chunks = loads(self.cipher.decrypt(obj['chunks'], self.shared(self.H(obj['data']))))
        try:
            data = loads(self.cipher.decrypt(obj['data'], self.userkey))
        except FormatError:
            data = None
        return {'chunks': chunks, 'data': data}

    def snapshots(self):
        out = {}
        for loc in sorted(self.o):
            if loc.startswith('snapshots/') and self.owns_snapshot_name(loc):
                out[loc] = self.snapshot(loc)
        return out

    def file_bytes(self, snap, f):
        parts = []
        pos = 0
        for cd in sorted(f['chunks'], key=lambda c: c['counter']):
            a, b = cd['range']
            plain = self.chunk_plain(snap['chunks'][cd['index']])
            if not (0 <= a <= b <= len(plain)):
                raise FormatError('range outside chunk')
            parts.append(plain[a:b])
            pos += b - a
        return b''.join(parts)

    def files(self, loc):
        snap = self.snapshot(loc)
        if snap['data'] is None:
            return None
        return {f['path']: self.file_bytes(snap, f) for f in snap['data']['files']}


# ---------------------------------------------------------------- writer
class Writer:
    """Emits a repository following the scheme (used for the 'reference writes,
    replicat restores' direction). Fixed-size chunking: any chunking is legal for
    a reader, the scheme does not prescribe boundaries."""

    def __init__(self, config, password=None, kdf_cfg=None, rnd=os.urandom):
        self.config = config
        self.rnd = rnd
        self.H = hasher(config['hashing'])
        self.o = {'config': dumps(config)}
        enc = config.get('encryption')
        self.encrypted = enc is not None
        self.keyfile = None
        if self.encrypted:
            self.cipher = Cipher(enc['cipher'])
            kb = self.cipher.key_bytes
            kdf_cfg = dict(kdf_cfg or {'name': 'scrypt', 'n': 4, 'r': 1, 'p': 1}, length=kb)
            salt = rnd(kb)
            self.userkey = kdf(kdf_cfg)(password, salt)
            self.private = {
                'shared_key': rnd(kb),
                'shared_kdf': {'name': 'blake2b', 'length': kb},
                'shared_kdf_params': rnd(16),
                'mac': {'name': 'blake2b', 'length': 64},
                'mac_params': rnd(64),
                'chunker_params': rnd(16),
            }
            priv_blob = self.cipher.encrypt(dumps(self.private), self.userkey, rnd(self.cipher.nonce_bytes))
            self.keyfile = dumps({'kdf': kdf_cfg, 'kdf_params': salt, 'private': priv_blob})
            self.mac = mac_fn(self.private['mac'], self.private['mac_params'])
            p = self.private
            self.shared = lambda ctx: kdf(p['shared_kdf'])(p['shared_key'], p['shared_kdf_params'], ctx)

    def _chunk_loc(self, digest):
        if self.encrypted:
            n = self.mac(digest)
            t = self.mac(n)
        else:
            n = t = digest
        n, t = n.hex(), t.hex()
        return f'data/{t[:2]}/{t[2:4]}/{t[4:]}-{n}'

    def add_snapshot(self, files, utc_timestamp, note=None, chunk_len=8, legacy_metadata=False, metadata=None,
                     shuffle_chunks=False, chunkless_empty=False):
        """files: {absolute path: bytes}. One stream of all files (no padding), fixed-size chunks."""
        table, order = {}, []
        file_entries = []
        counter = 0
        for path, data in files.items():
            entry = {'path': path, 'chunks': [], 'digest': self.H(data), 'metadata': None}
            md = dict((metadata or {}).get(path) or {})
            if not md:
                md = {'st_mode': 0o100644, 'st_uid': 0, 'st_gid': 0, 'st_size': len(data)}
                if legacy_metadata:
                    md.update({'st_atime': 1_600_000_500.25, 'st_mtime': 1_600_000_400.5, 'st_ctime': 1_600_000_400.5})
                else:
                    md.update({'st_atime_ns': 1_600_000_500_000_000_321, 'st_mtime_ns': 1_600_000_400_000_000_123,
                               'st_ctime_ns': 1_600_000_400_000_000_123})
            entry['metadata'] = md
            pieces = [data[i:i + chunk_len] for i in range(0, len(data), chunk_len)] or ([] if chunkless_empty else [b''])
            for piece in pieces:
                counter += 1
                if not piece:
                    # an empty file is recorded as one empty range of some chunk
                    if not order:
                        d0 = self.H(b'\0\0\0\0')
                        table[d0] = 0
                        order.append(d0)
                        self._put_chunk(d0, b'\0\0\0\0')
                    entry['chunks'].append({'range': [0, 0], 'index': 0, 'counter': counter})
                    continue
                d = self.H(piece)
                if d not in table:
                    table[d] = len(order)
                    order.append(d)
                    self._put_chunk(d, piece)
                entry['chunks'].append({'range': [0, len(piece)], 'index': table[d], 'counter': counter})
            if shuffle_chunks:
                entry['chunks'].reverse()
            file_entries.append(entry)
        data = {'utc_timestamp': utc_timestamp, 'files': file_entries}
        if note is not None:
            data['note'] = note
        body = {'chunks': order, 'data': data}
        if self.encrypted:
            blob = self.cipher.encrypt(dumps(data), self.userkey, self.rnd(self.cipher.nonce_bytes))
            body = {'chunks': self.cipher.encrypt(dumps(order), self.shared(self.H(blob)),
                                                  self.rnd(self.cipher.nonce_bytes)),
                    'data': blob}
        raw = dumps(body)
        d = self.H(raw)
        t = self.mac(d) if self.encrypted else d
        n, t = d.hex(), t.hex()
        loc = f'snapshots/{t[:2]}/{t[2:]}-{n}'
        self.o[loc] = raw
        return loc

    def _put_chunk(self, digest, plain):
        blob = self.cipher.encrypt(plain, self.shared(digest), self.rnd(self.cipher.nonce_bytes)) \
            if self.encrypted else plain
        self.o[self._chunk_loc(digest)] = blob
