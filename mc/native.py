"""Rebuild the C++ chunker from <repo>/src/adapters.cpp without pybind11 and
expose it under the module name `_replicat_adapters`.

A ~20 line stand-in header (shim/pybind11/pybind11.h) provides py::buffer and
inert class_/PYBIND11_MODULE; shim/wrap.cpp #includes the REAL adapters.cpp and
exports three C functions; ctypes replaces pybind11's argument conversion
(trusted glue). Builds are cached by the hash of the sources."""
from __future__ import annotations

import ctypes
import hashlib
import os
import subprocess
import sys
import types
from pathlib import Path

HERE = Path(__file__).resolve().parent
SHIM = HERE / 'shim'
BUILD = HERE.parent / '.build'


def _src_hash(cpp: Path, extra=''):
    hsh = hashlib.sha256()
    for p in (cpp, SHIM / 'wrap.cpp', SHIM / 'drv.cpp', SHIM / 'pybind11' / 'pybind11.h'):
        hsh.update(p.read_bytes())
    hsh.update(extra.encode())
    return hsh.hexdigest()[:20]


def build_lib(repo: Path) -> Path:
    cpp = Path(repo) / 'src' / 'adapters.cpp'
    out = BUILD / _src_hash(cpp) / 'libgcl.so'
    if out.exists():
        return out
    out.parent.mkdir(parents=True, exist_ok=True)
    tmp = out.with_suffix(f'.{os.getpid()}.tmp')
    cmd = ['g++', '-std=c++17', '-O2', '-shared', '-fPIC', '-mpclmul', '-msse4.1', '-mavx',
           f'-I{SHIM}', f'-DREPLICAT_ADAPTERS_CPP="{cpp}"', str(SHIM / 'wrap.cpp'), '-o', str(tmp)]
    r = subprocess.run(cmd, capture_output=True, text=True)
    if r.returncode != 0:
        raise RuntimeError('chunker build failed:\n' + r.stderr[-3000:])
    os.replace(tmp, out)
    return out


def build_asan_driver(repo: Path) -> Path:
    cpp = Path(repo) / 'src' / 'adapters.cpp'
    out = BUILD / _src_hash(cpp, 'asan') / 'drv_asan'
    if out.exists():
        return out
    out.parent.mkdir(parents=True, exist_ok=True)
    tmp = out.with_suffix(f'.{os.getpid()}.tmp')
    cmd = ['clang++', '-std=c++17', '-O1', '-g', '-fsanitize=address', '-fsanitize-recover=address', '-fno-omit-frame-pointer',
           '-mpclmul', '-msse4.1', '-mavx', f'-I{SHIM}', f'-DREPLICAT_ADAPTERS_CPP="{cpp}"',
           str(SHIM / 'drv.cpp'), '-o', str(tmp)]
    r = subprocess.run(cmd, capture_output=True, text=True)
    if r.returncode != 0:
        raise RuntimeError('asan driver build failed:\n' + r.stderr[-3000:])
    os.replace(tmp, out)
    return out


_lib = None


def load(repo: Path):
    global _lib
    if _lib is None:
        lib = ctypes.CDLL(str(build_lib(repo)))
        lib.gcl_new.restype = ctypes.c_void_p
        lib.gcl_new.argtypes = [ctypes.c_size_t, ctypes.c_size_t, ctypes.c_char_p, ctypes.c_size_t,
                                ctypes.c_char_p, ctypes.c_size_t]
        lib.gcl_free.restype = None
        lib.gcl_free.argtypes = [ctypes.c_void_p]
        lib.gcl_next_cut.restype = ctypes.c_size_t
        lib.gcl_next_cut.argtypes = [ctypes.c_void_p, ctypes.c_void_p, ctypes.c_size_t, ctypes.c_int]
        _lib = lib
    return _lib


def _as_size_t(v):
    # pybind11's size_t caster: Python int (or __index__), non-negative
    if isinstance(v, bool) or not isinstance(v, int):
        if isinstance(v, float):
            raise TypeError('incompatible constructor arguments (float for size_t)')
        try:
            v = v.__index__()
        except Exception:
            raise TypeError('incompatible function arguments') from None
    if v < 0 or v >= 1 << 64:
        raise TypeError('incompatible function arguments (size_t out of range)')
    return int(v)


class _gclmulchunker:
    def __init__(self, min_length, max_length, key):
        lib = load(_REPO)
        mn, mx = _as_size_t(min_length), _as_size_t(max_length)
        try:
            kb = bytes(memoryview(key))
        except TypeError:
            raise TypeError('incompatible constructor arguments (key is not a buffer)') from None
        err = ctypes.create_string_buffer(256)
        self._h = lib.gcl_new(mn, mx, kb, len(kb), err, 256)
        if not self._h:
            raise ValueError(err.value.decode())
        self._lib = lib
        self.min_length, self.max_length = mn, mx

    def next_cut(self, buffer, final=False):
        n = len(buffer)
        if n == 0:
            keep = ctypes.create_string_buffer(1)
            ptr = ctypes.addressof(keep)
        elif isinstance(buffer, bytearray):
            keep = (ctypes.c_char * n).from_buffer(buffer)
            ptr = ctypes.addressof(keep)
        else:
            keep = bytes(buffer)
            ptr = ctypes.cast(ctypes.c_char_p(keep), ctypes.c_void_p).value
        try:
            return int(self._lib.gcl_next_cut(self._h, ptr, n, 1 if final else 0))
        finally:
            del keep

    def __del__(self):
        try:
            if self._h:
                self._lib.gcl_free(self._h)
                self._h = None
        except Exception:
            pass


_REPO = None


def install(repo):
    """Register the rebuilt chunker as `_replicat_adapters` before replicat is imported."""
    global _REPO
    _REPO = Path(repo)
    load(_REPO)
    mod = types.ModuleType('_replicat_adapters')
    mod._gclmulchunker = _gclmulchunker
    mod.__file__ = str(build_lib(_REPO))
    sys.modules['_replicat_adapters'] = mod
    return mod


if __name__ == '__main__':
    repo = Path(os.environ.get('REPLICAT_SRC', '/repo'))
    print(build_lib(repo))
    print(build_asan_driver(repo))
