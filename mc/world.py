"""Closed world for replicat: in-memory object store backends with logs, fault
and completion seams; owned randomness and clocks; small helpers to run commands
under the deterministic scheduler."""
from __future__ import annotations

import contextlib
import copy
import datetime as _dt
import hashlib
import io
import os
import types
from pathlib import Path

from mc import dsched

import replicat.repository as R
import replicat.utils.adapters as A
from replicat.backends.base import Backend

dsched.install(R)

TRANSFERS = ('exists', 'upload', 'upload_stream', 'download', 'download_stream', 'delete')


class Store:
    """name -> bytes plus logs. Shared by all backend instances ("processes")."""

    def __init__(self, objects=None):
        self.o = dict(objects or {})
        self.calls = []      # (kind, name)
        self.mutations = []  # (kind, name, bytes|None)
        self.fault = None    # callable(kind, name, index) -> None | raises
        self.stale_exists = None  # callable(name, index) -> True to answer "missing" for an object that is there
        self.ncalls = 0

    def copy(self):
        return Store(self.o)

    def fp(self):
        return hash((len(self.calls), len(self.mutations), len(self.o)))


class _Base(Backend):
    def __init__(self, store, **kw):
        self.store = store
        self.inflight = 0
        self.max_inflight = 0
        self.over = []

    def _begin(self, kind, name):
        st = self.store
        idx = st.ncalls
        st.ncalls += 1
        st.calls.append((kind, name))
        if kind in TRANSFERS:
            self.inflight += 1
            self.max_inflight = max(self.max_inflight, self.inflight)
        return idx

    def _end(self, kind):
        if kind in TRANSFERS:
            self.inflight -= 1

    def _fault(self, kind, name, idx):
        if self.store.fault is not None:
            self.store.fault(kind, name, idx)

    # effects
    def _do(self, kind, name, *a):
        st = self.store
        if kind == 'exists':
            if name in st.o and st.stale_exists is not None and st.stale_exists(name, st.ncalls):
                return False   # eventually consistent store: a stale negative answer
            return name in st.o
        if kind == 'upload':
            data = bytes(a[0])
            st.o[name] = data
            st.mutations.append(('put', name, data))
            return None
        if kind == 'upload_stream':
            stream, length, chunk_size = a
            parts = []
            while True:
                piece = stream.read(chunk_size)
                if not piece:
                    break
                parts.append(bytes(piece))
            data = b''.join(parts)
            st.o[name] = data
            st.mutations.append(('put', name, data))
            return None
        if kind == 'download':
            return st.o[name]
        if kind == 'download_stream':
            stream, chunk_size = a
            data = st.o[name]
            stream.truncate(len(data))
            for i in range(0, len(data), chunk_size):
                stream.write(data[i:i + chunk_size])
            return None
        if kind == 'delete':
            if name in st.o:
                del st.o[name]
                st.mutations.append(('del', name, None))
            return None
        raise AssertionError(kind)


def _point(kind):
    s = dsched.cur()
    if s is not None:
        s.point('be-' + kind)


class MemBackend(_Base):
    """Plain (blocking) methods: replicat runs them in executor threads."""

    def _call(self, kind, name, *a):
        idx = self._begin(kind, name)
        try:
            _point(kind)
            self._fault(kind, name, idx)
            return self._do(kind, name, *a)
        finally:
            self._end(kind)

    def exists(self, name):
        return self._call('exists', name)

    def upload(self, name, data):
        return self._call('upload', name, data)

    def upload_stream(self, name, stream, length, chunk_size=128_000):
        return self._call('upload_stream', name, stream, length, chunk_size)

    def download(self, name):
        return self._call('download', name)

    def download_stream(self, name, stream, chunk_size=128_000):
        return self._call('download_stream', name, stream, chunk_size)

    def delete(self, name):
        return self._call('delete', name)

    def list_files(self, prefix=''):
        self.store.calls.append(('list', prefix))
        self._fault('list', prefix, -1)
        return [k for k in sorted(self.store.o) if k.startswith(prefix)]

    def clean(self):
        self.store.calls.append(('clean', ''))

    def close(self):
        pass


class AMemBackend(_Base):
    """Coroutine methods: replicat awaits them on the event loop; the environment
    pseudo-thread decides the completion order."""

    async def _call(self, kind, name, *a):
        idx = self._begin(kind, name)
        try:
            s = dsched.cur()
            if s is not None and s.env is not None and not s.teardown:
                await s.env.wait(f'{kind}:{name}')
            self._fault(kind, name, idx)
            return self._do(kind, name, *a)
        finally:
            self._end(kind)

    async def exists(self, name):
        return await self._call('exists', name)

    async def upload(self, name, data):
        return await self._call('upload', name, data)

    async def upload_stream(self, name, stream, length, chunk_size=128_000):
        return await self._call('upload_stream', name, stream, length, chunk_size)

    async def download(self, name):
        return await self._call('download', name)

    async def download_stream(self, name, stream, chunk_size=128_000):
        return await self._call('download_stream', name, stream, chunk_size)

    async def delete(self, name):
        return await self._call('delete', name)

    async def list_files(self, prefix=''):
        self.store.calls.append(('list', prefix))
        self._fault('list', prefix, -1)
        for k in [k for k in sorted(self.store.o) if k.startswith(prefix)]:
            yield k

    async def clean(self):
        self.store.calls.append(('clean', ''))

    async def close(self):
        pass


# ---------------------------------------------------------------- randomness and clocks
class _OsProxy:
    def __init__(self):
        self.label = b'0'
        self.ctr = 0
        self.real = False

    def __getattr__(self, name):
        return getattr(os, name)

    def urandom(self, n):
        if self.real:
            return _real_urandom(n)
        out = b''
        while len(out) < n:
            out += hashlib.sha256(self.label + self.ctr.to_bytes(8, 'big')).digest()
            self.ctr += 1
        return out[:n]


RANDOM = _OsProxy()
A.os = RANDOM

# ... and for every other spelling (`from os import urandom`, `secrets.token_bytes`, `random.SystemRandom`): the one
# function they all end in. `random` binds os.urandom at import time, hence the second assignment.
import random as _random  # noqa: E402

_real_urandom = os.urandom


def _urandom(n):
    if RANDOM.real:
        return _real_urandom(n)
    return RANDOM.urandom(n)


os.urandom = _urandom
_random._urandom = _urandom
for _k, _v in list(vars(A).items()):
    if _v is _real_urandom:
        setattr(A, _k, _urandom)


def set_random(label, real=False):
    RANDOM.label = label if isinstance(label, bytes) else str(label).encode()
    RANDOM.ctr = 0
    RANDOM.real = real


class Clock:
    now = _dt.datetime(2024, 1, 1, 0, 0, 0)
    step = _dt.timedelta(seconds=1)


class VDateTime(_dt.datetime):
    """The logical clock, whichever spelling of "now" the code under test uses."""

    @classmethod
    def utcnow(cls):
        Clock.now = Clock.now + Clock.step
        n = Clock.now
        return cls(n.year, n.month, n.day, n.hour, n.minute, n.second, n.microsecond)

    # the machine's local zone is not UTC: a naive now()/today() differs from utcnow() as it does on a real machine
    LOCAL_OFFSET = _dt.timedelta(hours=5, minutes=30)

    @classmethod
    def now(cls, tz=None):
        n = cls.utcnow()
        if tz is None:
            return n + cls.LOCAL_OFFSET
        return n.replace(tzinfo=_dt.timezone.utc).astimezone(tz)

    @classmethod
    def today(cls):
        return cls.utcnow() + cls.LOCAL_OFFSET


class _DatetimeModule:
    """`import datetime` / `import datetime as dt` spelling: the module with the logical clock inside."""
    datetime = VDateTime

    def __getattr__(self, name):
        return getattr(_dt, name)


def install_clock(m, cls=VDateTime):
    """Bind the logical clock in a module of the code under test, however it imported datetime."""
    for k, v in list(vars(m).items()):
        if v is _dt.datetime:
            setattr(m, k, cls)
        elif v is _dt:
            mod = _DatetimeModule()
            mod.datetime = cls
            setattr(m, k, mod)


install_clock(R)
if not any(v is VDateTime or isinstance(v, _DatetimeModule) for v in vars(R).values()):
    R.datetime = VDateTime     # no datetime import found at module level: keep the historical binding


def set_clock(now=None, step=None):
    Clock.now = now or _dt.datetime(2024, 1, 1, 0, 0, 0)
    Clock.step = step or _dt.timedelta(seconds=1)


# ---------------------------------------------------------------- running commands
@contextlib.contextmanager
def captured():
    out, err = io.StringIO(), io.StringIO()
    with contextlib.redirect_stdout(out), contextlib.redirect_stderr(err):
        yield out, err


FAST_KDF = {'n': 4, 'r': 1}
SMALL_CHUNKS = {'min_length': 4, 'max_length': 8}


def default_settings(encrypted=True, chunking=None, hashing=None, cipher=None, kdf=None):
    s = {'chunking': dict(chunking or SMALL_CHUNKS)}
    if hashing:
        s['hashing'] = dict(hashing)
    if encrypted:
        s['encryption'] = {'kdf': dict(kdf or FAST_KDF)}
        if cipher:
            s['encryption']['cipher'] = dict(cipher)
    else:
        s['encryption'] = None
    return s


class User:
    """Credentials of one key holder."""

    def __init__(self, name, password=None, key=None, family=None, cache=None):
        self.name, self.password, self.key, self.family, self.cache = name, password, key, family, cache

    def __repr__(self):
        return f'User({self.name})'


def make_repo(store, *, N=2, cache=None, backend=MemBackend):
    return R.Repository(backend(store), concurrent=N, quiet=True, cache_directory=cache)


async def a_init(store, settings, password=b'pw-owner', N=2, backend=MemBackend):
    repo = make_repo(store, N=N, backend=backend)
    with captured():
        res = await repo.init(password=password, settings=copy.deepcopy(settings))
        await repo.close()
    key = repo.serialize(res.key) if res.key is not None else None
    return key


async def a_open(store, user: User | None, N=2, backend=MemBackend, cache=None):
    repo = make_repo(store, N=N, cache=cache if cache is not None else (user.cache if user else None),
                     backend=backend)
    with captured():
        if user is None or user.key is None:
            await repo.unlock()
        else:
            await repo.unlock(password=user.password, key=user.key)
    return repo


async def a_add_key(store, user, new_password, shared, settings=None, N=2):
    repo = make_repo(store, N=N)
    with captured():
        if shared:
            await repo.unlock(password=user.password, key=user.key)
        res = await repo.add_key(password=new_password, shared=shared,
                                 settings=copy.deepcopy(settings) if settings else
                                 {'encryption': {'kdf': dict(FAST_KDF)}})
        await repo.close()
    return repo.serialize(res.new_key)


def run(coro_fn, *a, **kw):
    return dsched.run_default(coro_fn, *a, **kw)


# ---------------------------------------------------------------- file trees
def write_tree(root: Path, files: dict, mtime_base=1_600_000_000):
    """files: relative posix path (str or bytes) -> bytes. Deterministic mtimes."""
    root = Path(root)
    out = {}
    for i, (rel, data) in enumerate(sorted(files.items(), key=lambda kv: os.fsencode(kv[0]))):
        p = Path(os.fsdecode(os.path.join(os.fsencode(str(root)), os.fsencode(rel))))
        p.parent.mkdir(parents=True, exist_ok=True)
        p.write_bytes(data)
        ns = (mtime_base + i * 7) * 1_000_000_000 + 123_456_789 + i
        os.utime(p, ns=(ns + 1_000_000_000, ns))
        out[str(p)] = (data, ns)
    return out


def read_tree(root: Path):
    """All regular files under root: absolute path -> (bytes, mtime_ns). Symlinks not followed."""
    out = {}
    root = str(root)
    if not os.path.isdir(root):
        return out
    for d, dirs, files in os.walk(root):
        for f in files:
            p = os.path.join(d, f)
            if os.path.islink(p):
                out[p] = ('symlink', os.readlink(p))
                continue
            with open(p, 'rb') as fh:
                out[p] = (fh.read(), os.stat(p).st_mtime_ns)
    return out


def restore_path(target: Path, recorded: str) -> str:
    """Where replicat's restore puts a file recorded under the absolute path `recorded`."""
    return str(Path(target, *Path(recorded).parts[1:]))


# ---------------------------------------------------------------- virtual time for replicat.utils (rate limiter)
class VTime:
    """Stand-in for the `time` module inside replicat.utils: perf_counter and sleep follow the
    scheduler's virtual wall clock; outside a scheduled execution sleep is free."""

    oversleep = 1.0

    def perf_counter(self):
        s = dsched.cur()
        return s.vclock if s is not None else 0.0

    def sleep(self, seconds):
        s = dsched.cur()
        if s is not None:
            s.vsleep(seconds * self.oversleep, 'time.sleep')

    # any other clock the limiter might read follows the same virtual wall clock
    def monotonic(self):
        return self.perf_counter()

    def time(self):
        return 1_700_000_000.0 + self.perf_counter()

    def perf_counter_ns(self):
        return int(self.perf_counter() * 1e9)

    def monotonic_ns(self):
        return int(self.perf_counter() * 1e9)

    def time_ns(self):
        return int(self.time() * 1e9)

    def __getattr__(self, name):
        import time
        return getattr(time, name)


def install_virtual_time():
    import replicat.utils as U
    vt = VTime()
    import time as _time
    for k, v in list(vars(U).items()):
        if v is _time:
            setattr(U, k, vt)
        elif v in (_time.perf_counter, _time.sleep, _time.monotonic, _time.time):
            setattr(U, k, getattr(vt, v.__name__))     # `from time import sleep, perf_counter` spelling
    if not any(v is vt for v in vars(U).values()):
        U.time = vt
    dsched.install(U)      # locks etc. in replicat.utils, however they are imported
    return vt
