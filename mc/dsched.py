"""E1: deterministic scheduler for real threads plus a virtual asyncio event loop.

One participant runs at a time (baton = one semaphore per thread). Every
synchronisation operation replicat uses is replaced by a controlled version that
calls into the scheduler; the scheduler takes its decisions from a choice prefix
and takes alternative 0 afterwards. An execution *is* its list of choices.

Nothing here samples: `mc.explore` enumerates choice lists."""
from __future__ import annotations

import asyncio
import collections
import concurrent.futures
import heapq
import queue as _queue
import sys
import threading
import types
from asyncio import base_events, events

_real_Thread = threading.Thread
_real_Semaphore = threading.Semaphore


class Hang(Exception):
    """No participant is enabled although the execution is not finished."""


class Diverged(Exception):
    """Replay of a prefix met a different point than recorded (harness error)."""


class Horizon(Exception):
    """Per-execution point cap exceeded (reported as capped, never as a pass)."""


class Abort(BaseException):
    """Raised inside participants to unwind them when an execution is abandoned."""


class TRec:
    __slots__ = ('tid', 'name', 'sem', 'pred', 'timeout', 'done', 'blockver', 'thread', 'steps', 'where', 'last_run')

    def __init__(self, tid, name):
        self.tid, self.name = tid, name
        self.sem = _real_Semaphore(0)
        self.pred = None
        self.timeout = False
        self.done = False
        self.blockver = 0
        self.thread = None
        self.steps = 0
        self.where = ''
        self.last_run = 0


class Sched:
    def __init__(self, prefix=(), horizon=20000, fp_hook=None, collect_states=False):
        # prefix entries: int choice, or (choice, n, kind) for checked replay
        self.prefix = list(prefix)
        self.horizon = horizon
        self.threads = []
        self.points = []  # (n_alts, chosen, kind)
        self.version = 0
        self.tls = threading.local()
        self.failed = None
        self.aborting = False
        self.teardown = False
        self.fp_hook = fp_hook
        self.collect_states = collect_states
        self.states = set()
        self.edges = set()
        self.executors = []
        self.env = None
        self.trace = []  # names of the participants in the order they ran (compressed)
        self.max_steps = 50 * max(horizon, 20000)
        self.in_pred = False
        self.yield_now = False
        self.vclock = 0.0   # virtual wall clock for plain threads (see vsleep)
        self.sleepers = {}  # tid -> wake time

    # -- participants
    def register_main(self, name='loop'):
        rec = TRec(0, name)
        self.threads.append(rec)
        self.tls.rec = rec
        return rec

    def spawn(self, fn, name):
        rec = TRec(len(self.threads), name)
        self.threads.append(rec)

        def body():
            self.tls.rec = rec
            _BIND.sched = self
            rec.sem.acquire()
            try:
                if self.aborting:
                    return
                fn()
            except Abort:
                pass
            finally:
                rec.done = True
                if not self.aborting:
                    try:
                        self._switch(rec, 'exit')
                    except Abort:
                        pass

        rec.thread = _real_Thread(target=body, name=name, daemon=True)
        rec.thread.start()
        return rec

    def me(self):
        return self.tls.rec

    # -- choices
    def _take(self, n, kind):
        if self.teardown:
            return 0
        i = len(self.points)
        if i >= self.horizon:
            raise Horizon(f'more than {self.horizon} points')
        if i < len(self.prefix):
            p = self.prefix[i]
            if isinstance(p, (tuple, list)):
                c, pn, pk = p
                if pn != n or pk != kind:
                    raise Diverged(f'point {i}: recorded ({pn},{pk}) but met ({n},{kind})')
            else:
                c = p
            if c >= n:
                raise Diverged(f'point {i}: choice {c} >= {n} ({kind})')
        else:
            c = 0
        self.points.append((n, c, kind))
        return c

    def choose(self, n, kind='data'):
        """Environment/data choice with n alternatives (0 = the default answer)."""
        if self.aborting:
            raise Abort()
        if n <= 1:
            return 0
        try:
            return self._take(n, kind)
        except (Horizon, Diverged) as e:
            self._fail(e)

    def _enabled(self, me):
        self.in_pred = True
        try:
            return self._enabled_inner(me)
        finally:
            self.in_pred = False

    def _enabled_inner(self, me):
        en = []
        for t in self.threads:
            if t.done:
                continue
            if t.pred is None or t.pred():
                en.append(t)
        def tmo(t):
            return t.timeout() if callable(t.timeout) else t.timeout

        if not en and self.sleepers:
            # nobody can move: virtual time jumps to the earliest wake-up
            self.vclock = max(self.vclock, min(self.sleepers.values()))
            en = [t for t in self.threads if not t.done and (t.pred is None or t.pred())]
            en.sort(key=lambda t: (t is not me, t.tid))
            if en:
                return en
        if not en:
            # let time pass: wake timeout-capable waiters, longest waiting first (a
            # poller that just went back to sleep must not starve the other pollers)
            en = [t for t in self.threads if not t.done and tmo(t)]
            en.sort(key=lambda t: (t.blockver, t.tid))
            return en
        truly = set(id(t) for t in en)
        for t in self.threads:
            if not t.done and t not in en and t.blockver < self.version and tmo(t):
                en.append(t)
        # canonical order: the running participant; then the enabled ones, least recently run first (so
        # that a participant that was preempted stays preempted while anybody else can move - one
        # deviation buys a real preemption, not a one-step delay); then waiters that could be woken by
        # time passing (timers, pollers, the environment): those are deviations
        if self.yield_now:
            # a contended lock was just released: hand over to the longest waiting participant by default
            en.sort(key=lambda t: (id(t) not in truly, t is me, t.last_run, t.tid))
        else:
            en.sort(key=lambda t: (t is not me, id(t) not in truly, t.last_run, t.tid))
        return en

    def _fail(self, exc):
        """Abandon the execution: remember why, wake everybody so they unwind."""
        if self.failed is None:
            self.failed = exc
        self.aborting = True
        me = self.me()
        for t in self.threads:
            if t is not me:
                t.sem.release()
        if me.tid == 0:
            raise self.failed
        raise Abort()

    def _switch(self, me, kind):
        if self.aborting:
            if me.tid == 0 and self.failed is not None:
                raise self.failed
            raise Abort()
        self.version += 1
        me.steps += 1
        if self.version > self.max_steps:
            self._fail(Horizon(f'more than {self.max_steps} scheduler steps (livelock?)'))
        en = self._enabled(me)
        if not en:
            if all(t.done for t in self.threads):
                return
            self._fail(Hang('no enabled participant; waiting: ' + ', '.join(
                f'{t.name}@{t.where}' for t in self.threads if not t.done)))
        if len(en) > 1:
            try:
                c = self._take(len(en), kind)
            except (Horizon, Diverged) as e:
                self._fail(e)
        else:
            c = 0
        nxt = en[c]
        nxt.last_run = self.version
        if self.collect_states and not self.teardown:
            fp = (tuple(t.steps for t in self.threads), self.fp_hook() if self.fp_hook else 0)
            hfp = hash(fp)
            self.states.add(hfp)
            self.edges.add(hash((hfp, nxt.tid)))
        if nxt is me:
            return
        nxt.sem.release()
        if not me.done:
            me.sem.acquire()
            if self.aborting:
                if me.tid == 0 and self.failed is not None:
                    raise self.failed
                raise Abort()

    def vsleep(self, seconds, kind='sleep'):
        """Block the calling participant for `seconds` of virtual time."""
        me = self.me()
        wake = self.vclock + max(0.0, seconds)
        self.sleepers[me.tid] = wake
        try:
            self.block_until(lambda: self.vclock >= wake, kind)
        finally:
            self.sleepers.pop(me.tid, None)

    def timed_wait(self, pred, seconds, kind):
        """Wait until pred() holds or `seconds` have passed. The timeout may fire at any scheduling point (a
        deviation while others can run, the default when nobody can), and when it does the virtual clock is at
        least at the deadline - code that measures the wait sees the time it asked for."""
        me = self.me()
        deadline = self.vclock + max(0.0, seconds)
        self.sleepers[me.tid] = deadline
        try:
            self.block_until(lambda: pred() or self.vclock >= deadline, kind, timeout=True)
        finally:
            self.sleepers.pop(me.tid, None)
        if not pred():
            self.vclock = max(self.vclock, deadline)
            return False
        return True

    def point(self, kind='p'):
        me = self.me()
        me.where = kind
        self._switch(me, kind)

    def block_until(self, pred, kind='block', timeout=False):
        me = self.me()
        me.pred, me.timeout, me.blockver, me.where = pred, timeout, self.version + 1, kind
        try:
            self._switch(me, kind)
        finally:
            me.pred, me.timeout = None, False

    # -- teardown
    def finish(self):
        """Let every remaining participant run to its end (no recorded choices),
        then unwind whatever is still blocked. Returns names of blocked ones."""
        self.teardown = True
        for ex in self.executors:
            ex.shutdown_flag = True
        if self.env is not None:
            self.env.stop = True
        me = self.threads[0]
        blocked = []
        if not self.aborting:
            try:
                # run others until none of them is enabled any more
                while True:
                    others = [t for t in self.threads if t is not me and not t.done and (t.pred is None or t.pred())]
                    if not others:
                        break
                    self.block_until(lambda: not any(
                        (t.pred is None or t.pred()) for t in self.threads if t is not me and not t.done), 'join')
            except (Hang, Horizon, Diverged, Abort):
                pass
            blocked = [f'{t.name}@{t.where}' for t in self.threads[1:] if not t.done]
        self.aborting = True
        for t in self.threads[1:]:
            if not t.done:
                t.sem.release()
        leaked = 0
        for t in self.threads[1:]:
            if t.thread is not None:
                t.thread.join(2.0)
                if t.thread.is_alive():
                    leaked += 1
        return blocked, leaked


_BIND = threading.local()  # scheduler of the execution the calling thread belongs to


class _Cur:
    """`SCHED` resolves per thread, so that a participant left over from an
    abandoned execution can never act on a later execution's scheduler."""

    def __getattr__(self, name):
        return getattr(_BIND.sched, name)

    def __bool__(self):
        return getattr(_BIND, 'sched', None) is not None


SCHED = _Cur()


def cur():
    return getattr(_BIND, 'sched', None)


# ---------------------------------------------------------------- controlled primitives
class CLock:
    def __init__(self):
        self.owner = None

    def acquire(self, blocking=True, timeout=-1):
        s = cur()
        if s is None:
            # outside a scheduled execution: a trivial single-threaded lock
            if self.owner is not None:
                return False
            self.owner = 'unscheduled'
            return True
        if self.owner is not None:
            if not blocking:
                s.point('lock-try')
                if self.owner is not None:
                    return False
            elif timeout is not None and timeout >= 0:
                if not s.timed_wait(lambda: self.owner is None, timeout, 'lock'):
                    return False
            else:
                s.block_until(lambda: self.owner is None, 'lock')
        else:
            s.point('lock')
            if self.owner is not None:
                if not blocking:
                    return False
                if timeout is not None and timeout >= 0:
                    if not s.timed_wait(lambda: self.owner is None, timeout, 'lock'):
                        return False
                else:
                    s.block_until(lambda: self.owner is None, 'lock')
        self.owner = s.me()
        return True

    def release(self):
        self.owner = None
        s = cur()
        if s is not None:
            # fair hand-off: if somebody is waiting for this lock, the default is to let them have it
            waiting = any(t.where == 'lock' and t.pred is not None and not t.done for t in s.threads if t is not s.me())
            s.yield_now = waiting
            try:
                s.point('unlock')
            finally:
                s.yield_now = False

    def locked(self):
        return self.owner is not None

    def __enter__(self):
        self.acquire()
        return self

    def __exit__(self, *a):
        self.release()


class CEvent:
    def __init__(self):
        self.flag = False

    def set(self):
        SCHED.point('ev-set')
        self.flag = True

    def is_set(self):
        SCHED.point('ev-get')
        return self.flag

    def clear(self):
        SCHED.point('ev-clear')
        self.flag = False

    def wait(self, timeout=None):
        s = cur()
        s.point('ev-wait')
        if not self.flag:
            if timeout is None:
                s.block_until(lambda: self.flag, 'ev-wait')
            else:
                s.timed_wait(lambda: self.flag, timeout, 'ev-wait')
        return self.flag

    isSet = is_set


class CRLock:
    def __init__(self):
        self.owner = None
        self.count = 0

    def acquire(self, blocking=True, timeout=-1):
        s = cur()
        me = s.me() if s is not None else 'unscheduled'
        if self.owner is me and self.owner is not None:
            self.count += 1
            return True
        if s is None:
            if self.owner is not None:
                return False
            self.owner, self.count = me, 1
            return True
        s.point('lock')
        if self.owner is not None:
            if not blocking:
                return False
            if timeout is not None and timeout >= 0:
                s.timed_wait(lambda: self.owner is None, timeout, 'lock')
            else:
                s.block_until(lambda: self.owner is None, 'lock')
            if self.owner is not None:
                return False
        self.owner, self.count = me, 1
        return True

    def release(self):
        if self.owner is None:
            raise RuntimeError('cannot release un-acquired lock')
        self.count -= 1
        if self.count:
            return
        self.owner = None
        s = cur()
        if s is not None:
            waiting = any(t.where == 'lock' and t.pred is not None and not t.done for t in s.threads if t is not s.me())
            s.yield_now = waiting
            try:
                s.point('unlock')
            finally:
                s.yield_now = False

    def _is_owned(self):
        s = cur()
        return self.owner is not None and (s is None or self.owner is s.me())

    def __enter__(self):
        self.acquire()
        return self

    def __exit__(self, *a):
        self.release()


class CSemaphore:
    def __init__(self, value=1):
        if value < 0:
            raise ValueError('semaphore initial value must be >= 0')
        self.value = value
        self.initial = None

    def acquire(self, blocking=True, timeout=None):
        s = cur()
        if s is None:
            if self.value <= 0:
                return False
            self.value -= 1
            return True
        s.point('sem')
        if self.value <= 0:
            if not blocking:
                return False
            if timeout is not None:
                s.timed_wait(lambda: self.value > 0, timeout, 'sem')
            else:
                s.block_until(lambda: self.value > 0, 'sem')
            if self.value <= 0:
                return False
        self.value -= 1
        return True

    def release(self, n=1):
        if self.initial is not None and self.value + n > self.initial:
            raise ValueError('Semaphore released too many times')
        self.value += n
        s = cur()
        if s is not None:
            s.point('sem-release')

    def __enter__(self):
        self.acquire()
        return self

    def __exit__(self, *a):
        self.release()


class CBoundedSemaphore(CSemaphore):
    def __init__(self, value=1):
        super().__init__(value)
        self.initial = value


class CCondition:
    def __init__(self, lock=None):
        self.lock = lock if lock is not None else CRLock()
        self.waiters = []
        self.acquire, self.release = self.lock.acquire, self.lock.release

    def __enter__(self):
        self.lock.acquire()
        return self

    def __exit__(self, *a):
        self.lock.release()

    def wait(self, timeout=None):
        s = cur()
        tok = [False]
        self.waiters.append(tok)
        # release the lock completely (also a re-entrant one), wait, take it back
        depth = getattr(self.lock, 'count', 1) or 1
        for _ in range(depth):
            self.lock.release()
        try:
            if timeout is not None:
                s.timed_wait(lambda: tok[0], timeout, 'cond-wait')
            else:
                s.block_until(lambda: tok[0], 'cond-wait')
        finally:
            if tok in self.waiters:
                self.waiters.remove(tok)
            for _ in range(depth):
                self.lock.acquire()
        return tok[0]

    def wait_for(self, predicate, timeout=None):
        r = predicate()
        while not r:
            if not self.wait(timeout) and timeout is not None:
                return predicate()
            r = predicate()
        return r

    def notify(self, n=1):
        for tok in self.waiters[:n]:
            tok[0] = True
        del self.waiters[:n]
        cur().point('cond-notify')

    def notify_all(self):
        self.notify(len(self.waiters))

    notifyAll = notify_all


class CThread:
    """threading.Thread stand-in: the body runs as one more scheduled participant."""
    _n = 0

    def __init__(self, group=None, target=None, name=None, args=(), kwargs=None, *, daemon=None):
        CThread._n += 1
        self.name = name or f'thread-{CThread._n}'
        self._target, self._args, self._kwargs = target, args, kwargs or {}
        self.daemon = daemon
        self._rec = None

    def run(self):
        if self._target is not None:
            self._target(*self._args, **self._kwargs)

    def start(self):
        s = cur()
        self._rec = s.spawn(self.run, self.name)
        s.point('thread-start')

    def join(self, timeout=None):
        s = cur()
        if self._rec is not None and not self._rec.done:
            if timeout is not None:
                s.timed_wait(lambda: self._rec.done, timeout, 'thread-join')
            else:
                s.block_until(lambda: self._rec.done, 'thread-join')

    def is_alive(self):
        return self._rec is not None and not self._rec.done


class CQueue:
    def __init__(self, maxsize=0):
        self.maxsize = maxsize
        self.q = collections.deque()

    def put(self, item, block=True, timeout=None):
        s = cur()
        s.point('q-put')
        if self.maxsize and len(self.q) >= self.maxsize:
            if not block:
                raise _queue.Full
            s.block_until(lambda: len(self.q) < self.maxsize, 'q-full', timeout=timeout is not None)
            if len(self.q) >= self.maxsize:
                raise _queue.Full
        self.q.append(item)

    def put_nowait(self, item):
        return self.put(item, block=False)

    def get_nowait(self):
        SCHED.point('q-get')
        if not self.q:
            raise _queue.Empty
        return self.q.popleft()

    def get(self, block=True, timeout=None):
        s = cur()
        s.point('q-get')
        if not self.q:
            if not block:
                raise _queue.Empty
            s.block_until(lambda: bool(self.q), 'q-empty', timeout=timeout is not None)
            if not self.q:
                raise _queue.Empty
        return self.q.popleft()

    def empty(self):
        SCHED.point('q-empty?')
        return not self.q

    def qsize(self):
        return len(self.q)

    def full(self):
        SCHED.point('q-full?')
        return bool(self.maxsize) and len(self.q) >= self.maxsize

    def task_done(self):
        self.unfinished = getattr(self, 'unfinished', 0) - 1

    def join(self):
        SCHED.block_until(lambda: not self.q, 'q-join')


class CFuture(concurrent.futures.Future):
    def _done(self):
        return concurrent.futures.Future.done(self)

    def done(self):
        # reading the state of a future that another thread completes is a shared access:
        # a scheduling point when the code under test does it (never inside a scheduler predicate)
        s = cur()
        if s is not None and not s.in_pred and not s.aborting:
            s.point('fut-done?')
        return concurrent.futures.Future.done(self)

    def result(self, timeout=None):
        if not self._done():
            SCHED.block_until(self._done, 'fut-result')
        else:
            SCHED.point('fut-result')
        return super().result(0)

    def exception(self, timeout=None):
        if not self._done():
            SCHED.block_until(self._done, 'fut-exc')
        return super().exception(0)


def c_as_completed(fs, timeout=None):
    pending = list(fs)
    while pending:
        if not any(f._done() for f in pending):
            SCHED.block_until(lambda: any(f._done() for f in pending), 'as-completed')
        else:
            SCHED.point('as-completed')
        for f in list(pending):
            if f._done():
                pending.remove(f)
                yield f


def c_wait(fs, timeout=None, return_when='ALL_COMPLETED'):
    fs = list(fs)

    def ready():
        d = [f for f in fs if f._done()]
        if return_when == 'FIRST_COMPLETED':
            return bool(d)
        if return_when == 'FIRST_EXCEPTION':
            return len(d) == len(fs) or any(not f.cancelled() and concurrent.futures.Future.exception(f, 0) is not None for f in d)
        return len(d) == len(fs)

    if fs and not ready():
        SCHED.block_until(ready, 'fut-wait', timeout=timeout is not None)
    else:
        SCHED.point('fut-wait')
    done = {f for f in fs if f._done()}
    return concurrent.futures._base.DoneAndNotDoneFutures(done, set(fs) - done)


class CExecutor:
    """ThreadPoolExecutor stand-in: FIFO work queue; idle workers are
    interchangeable, only the lowest-numbered idle worker is enabled for a new
    item (symmetry reduction; workers carry no thread-local state)."""

    def __init__(self, max_workers=None, thread_name_prefix='', **kw):
        self.max_workers = max_workers or 4
        self.prefix = thread_name_prefix or 'pool'
        self.work = collections.deque()
        self.workers = []
        self.idle = []
        self.shutdown_flag = False
        SCHED.executors.append(self)

    def submit(self, fn, /, *a, **kw):
        s = cur()
        if self.shutdown_flag and not s.teardown:
            raise RuntimeError('cannot schedule new futures after shutdown')
        fut = CFuture()
        self.work.append((fut, fn, a, kw))
        if not self.idle and len(self.workers) < self.max_workers:
            self.workers.append(s.spawn(self._worker, f'{self.prefix}_{len(self.workers)}'))
        s.point('submit')
        return fut

    def _worker(self):
        s = cur()
        me = s.me()
        while True:
            if not self.work:
                if self.shutdown_flag:
                    return
                self.idle.append(me)
                try:
                    s.block_until(
                        lambda: (bool(self.work) and self.idle and self.idle[0] is me) or self.shutdown_flag,
                        'worker-idle')
                finally:
                    self.idle.remove(me)
            if not self.work:
                if self.shutdown_flag:
                    return
                continue
            fut, fn, a, kw = self.work.popleft()
            if not fut.set_running_or_notify_cancel():
                continue
            try:
                r = fn(*a, **kw)
            except Abort:
                raise
            except BaseException as e:
                fut.set_exception(e)
            else:
                fut.set_result(r)
            fut = fn = a = kw = r = None
            s.point('work-done')

    def shutdown(self, wait=True, cancel_futures=False):
        self.shutdown_flag = True
        if cancel_futures:
            while self.work:
                self.work.popleft()[0].cancel()

    def map(self, fn, *iterables, timeout=None, chunksize=1):
        futs = [self.submit(fn, *args) for args in zip(*iterables)]

        def results():
            for f in futs:
                yield f.result()
        return results()

    def __enter__(self):
        return self

    def __exit__(self, *a):
        # ThreadPoolExecutor.__exit__ waits for the submitted work
        s = cur()
        self.shutdown_flag = True
        if s is not None and not s.teardown and not s.aborting:
            s.block_until(lambda: not self.work and all(w.done or w in self.idle for w in self.workers), 'pool-exit')
        return False


def c_run_coroutine_threadsafe(coro, loop):
    fut = CFuture()

    def callback():
        try:
            asyncio.futures._chain_future(asyncio.ensure_future(coro, loop=loop), fut)
        except (SystemExit, KeyboardInterrupt):
            raise
        except BaseException as exc:
            if fut.set_running_or_notify_cancel():
                fut.set_exception(exc)
            raise

    loop.call_soon_threadsafe(callback)
    return fut


class Env:
    """Environment pseudo-thread for coroutine backends: decides which pending
    backend call completes next (a data choice among the pending ones)."""

    def __init__(self, sched, loop):
        self.s, self.loop = sched, loop
        self.pending = []
        self.stop = False
        self.rec = sched.spawn(self._run, 'env')
        sched.env = self

    def wait(self, label):
        fut = self.loop.create_future()
        self.pending.append((label, fut))
        return fut

    def _live(self):
        self.pending = [(l, f) for l, f in self.pending if not f.done()]
        return self.pending

    def _run(self):
        """The environment answers one pending call at a time, and by default only
        when nothing else can move (so that as many calls as the code allows are in
        flight, and the choice among them is a pure completion-order choice);
        answering earlier is an alternative like a timer firing early."""
        s = self.s
        while True:
            s.block_until(lambda: self.stop and not self._live(), 'env-wait', timeout=lambda: bool(self._live()))
            live = self._live()
            if not live:
                if self.stop:
                    return
                continue
            i = s.choose(len(live), 'env-complete')
            label, fut = live.pop(i)
            self.loop.call_soon_threadsafe(_complete, fut)


def _complete(fut):
    if not fut.done():
        fut.set_result(None)


class VLoop(base_events.BaseEventLoop):
    """Event loop with virtual time and no selector; one ready callback per step."""

    def __init__(self):
        super().__init__()
        self._vtime = 0.0

    def time(self):
        return self._vtime

    def run_in_executor(self, executor, func, *args):
        # the default executor would be a real thread pool outside the scheduler
        if executor is None:
            executor = getattr(self, '_cexec', None)
            if executor is None:
                executor = self._cexec = CExecutor(max_workers=4, thread_name_prefix='default-executor')
        return super().run_in_executor(executor, func, *args)

    def _write_to_self(self):
        pass

    def _process_events(self, ev):
        pass

    def call_soon_threadsafe(self, callback, *args, context=None):
        h = super().call_soon_threadsafe(callback, *args, context=context)
        s = cur()
        if s is not None and s.me().tid != 0:
            s.point('threadsafe')
        return h

    def _due(self):
        while self._scheduled and self._scheduled[0]._cancelled:
            h = heapq.heappop(self._scheduled)
            h._scheduled = False
        while self._scheduled and self._scheduled[0]._when <= self._vtime:
            h = heapq.heappop(self._scheduled)
            h._scheduled = False
            self._ready.append(h)

    def _step(self, s, until):
        """Run the loop under the scheduler until `until()` holds. Returns False if
        the loop went idle for good (nothing ready, no timers, nobody else enabled)."""
        while not until():
            self._due()
            if self._ready:
                h = self._ready.popleft()
                if not h._cancelled:
                    h._run()
                h = None
                s.point('loop')
            else:
                has_timer = bool(self._scheduled)
                s.block_until(lambda: bool(self._ready), 'loop-idle', timeout=has_timer)
                if not self._ready:
                    self._due()
                    if not self._ready and self._scheduled:
                        self._vtime = max(self._vtime, self._scheduled[0]._when)
        return True

    def run_main(self, coro):
        s = cur()
        events._set_running_loop(self)
        self._thread_id = threading.get_ident()
        task = asyncio.ensure_future(coro, loop=self)
        try:
            self._step(s, task.done)
        except BaseException:
            events._set_running_loop(None)
            self._thread_id = None
            raise
        return task

    def drain(self):
        """What asyncio.run does after the main task: cancel what is left and let
        it unwind; additionally let worker threads finish what they are doing.
        No choices are recorded. Returns when quiescent."""
        s = cur()
        s.teardown = True
        try:
            for _ in range(3):
                to_cancel = [t for t in asyncio.all_tasks(self) if not t.done()]
                for t in to_cancel:
                    t.cancel()

                me = s.threads[0]

                def quiet():
                    if self._ready:
                        return False
                    for t in s.threads:
                        if t is me or t.done:
                            continue
                        if t.pred is None or t.pred():
                            return False
                    return True

                steps = 0
                while not quiet() and steps < 5000:
                    steps += 1
                    self._due()
                    if self._ready:
                        h = self._ready.popleft()
                        if not h._cancelled:
                            h._run()
                        h = None
                        s.point('drain')
                    else:
                        s.block_until(lambda: bool(self._ready) or quiet(), 'drain-idle')
                if not [t for t in asyncio.all_tasks(self) if not t.done()]:
                    break
        finally:
            events._set_running_loop(None)
            self._thread_id = None


class Unsupported(Exception):
    """The code under test uses a concurrency primitive the scheduler has no controlled version of:
    the harness cannot decide anything about it (reported as a harness error, never as a violation)."""


class _ModProxy:
    """Stands in for a module object in the namespace of the code under test: controlled versions of
    the synchronisation primitives, everything else from the real module."""

    def __init__(self, real, over, unsupported=()):
        self.__dict__['_real'] = real
        self.__dict__['_over'] = dict(over)
        self.__dict__['_unsupported'] = frozenset(unsupported)

    def __getattr__(self, name):
        over = self.__dict__['_over']
        if name in over:
            return over[name]
        if name in self.__dict__['_unsupported']:
            UNSUPPORTED_SEEN.add(f"{self.__dict__['_real'].__name__}.{name}")
            raise Unsupported(f"{self.__dict__['_real'].__name__}.{name} has no controlled stand-in in mc.dsched")
        return getattr(self.__dict__['_real'], name)

    def __setattr__(self, name, value):
        self.__dict__['_over'][name] = value


UNSUPPORTED_SEEN = set()
_ORIGINALS = {}

_FUTURES_OVER = None


def _proxies():
    fut = _ModProxy(concurrent.futures, {
        'ThreadPoolExecutor': CExecutor, 'as_completed': c_as_completed, 'wait': c_wait, 'Future': CFuture,
    }, unsupported=('ProcessPoolExecutor',))
    return {
        threading: _ModProxy(threading, {
            'Lock': CLock, 'RLock': CRLock, 'Event': CEvent, 'Semaphore': CSemaphore,
            'BoundedSemaphore': CBoundedSemaphore, 'Condition': CCondition, 'Thread': CThread,
        }, unsupported=('Barrier', 'Timer')),
        _queue: _ModProxy(_queue, {'Queue': CQueue, 'SimpleQueue': CQueue},
                          unsupported=('LifoQueue', 'PriorityQueue')),
        concurrent: _ModProxy(concurrent, {'futures': fut}),
        concurrent.futures: fut,
        asyncio: _ModProxy(asyncio, {'run_coroutine_threadsafe': c_run_coroutine_threadsafe}),
    }


def _by_identity():
    return {
        id(threading.Lock): CLock, id(threading.RLock): CRLock, id(threading.Event): CEvent,
        id(threading.Semaphore): CSemaphore, id(threading.BoundedSemaphore): CBoundedSemaphore,
        id(threading.Condition): CCondition, id(threading.Thread): CThread,
        id(_queue.Queue): CQueue, id(_queue.SimpleQueue): CQueue,
        id(concurrent.futures.ThreadPoolExecutor): CExecutor, id(concurrent.futures.as_completed): c_as_completed,
        id(concurrent.futures.wait): c_wait, id(concurrent.futures.Future): CFuture,
        id(asyncio.run_coroutine_threadsafe): c_run_coroutine_threadsafe,
    }


def uninstall(m):
    """Give a module of the code under test its real primitives back (for runs without the scheduler)."""
    for k, v in _ORIGINALS.get(m.__name__, {}).items():
        setattr(m, k, v)


def install(m):
    """Replace the concurrency primitives in the namespace of a module of the code under test, however
    it imported them (`import threading`, `from threading import Lock`, `import queue as q`, ...)."""
    saved = _ORIGINALS.setdefault(m.__name__, {})
    proxies = _proxies()
    ident = _by_identity()
    for k, v in list(vars(m).items()):
        if isinstance(v, types.ModuleType) and v in proxies:
            saved.setdefault(k, v)
            setattr(m, k, proxies[v])
        elif id(v) in ident and not isinstance(v, types.ModuleType):
            saved.setdefault(k, v)
            setattr(m, k, ident[id(v)])


class Execution:
    __slots__ = ('points', 'task', 'err', 'blocked', 'leaked', 'states', 'edges', 'loop', 'result', 'exc')

    @property
    def choices(self):
        return [p[1] for p in self.points]


def run_one(make_coro, prefix=(), horizon=20000, fp_hook=None, collect_states=False, want_env=False,
            drain=True):
    """One execution under the given choice prefix.

    make_coro(loop, sched) -> coroutine (may also create Env via sched.env).
    Returns an Execution: .result / .exc of the main task, or .err for
    Hang/Horizon/Diverged."""
    s = Sched(prefix, horizon, fp_hook=fp_hook, collect_states=collect_states)
    _BIND.sched = s
    s.register_main()
    loop = VLoop()
    if want_env:
        Env(s, loop)
    x = Execution()
    x.err = x.task = x.result = x.exc = None
    x.loop = loop
    try:
        x.task = loop.run_main(make_coro(loop, s))
    except (Hang, Horizon, Diverged) as e:
        x.err = e
    else:
        if x.task.cancelled():
            x.exc = asyncio.CancelledError()
        elif x.task.exception() is not None:
            x.exc = x.task.exception()
        else:
            x.result = x.task.result()
        if drain:
            try:
                loop.drain()
            except (Hang, Horizon, Diverged, Abort) as e:
                pass
    x.points = list(s.points)
    x.blocked, x.leaked = s.finish()
    if x.err is not None:
        # dispose of the abandoned coroutines now, while this thread is still bound to
        # the abandoned (aborting) scheduler: their finally-blocks must never run
        # later, from the garbage collector, inside another execution
        _dispose(loop)
    x.states, x.edges = s.states, s.edges
    try:
        loop.close()
    except Exception:
        pass
    _BIND.sched = None
    return x


DEFAULT_RUN_HORIZON = [200_000]


def _dispose(loop):
    import gc

    try:
        tasks = list(asyncio.all_tasks(loop))
    except Exception:
        tasks = []
    for t in tasks:
        try:
            t._log_destroy_pending = False
            co = t.get_coro()
            if co is not None:
                co.close()
        except BaseException:
            pass
    tasks = t = co = None
    try:
        gc.collect()
    except BaseException:
        pass


def run_default(coro_fn, *a, **kw):
    """Run one coroutine under the default schedule and return its result
    (or raise its exception). Used as a fast deterministic runtime."""
    x = run_one(lambda loop, s: coro_fn(*a, **kw), horizon=DEFAULT_RUN_HORIZON[0])
    if x.err is not None:
        raise x.err
    if x.exc is not None:
        raise x.exc
    return x.result


# ---------------------------------------------------------------- line-level points
_MON_TOOL = 4


_FOREIGN_ONLY = set()    # code objects whose lines are points only when a thread other than the loop's runs them


def loop_bound_code():
    """Code of the asyncio primitives that are bound to the event loop's thread. They are not thread-safe: if a worker
    thread of the code under test calls them directly, every line of theirs is a scheduling point for that thread, so
    a check-then-act race inside them (e.g. Queue.get_nowait: empty() ... _get()) can be scheduled."""
    import asyncio.queues as q
    out = []
    for cls in (q.Queue, q.PriorityQueue, q.LifoQueue):
        for name in ('get_nowait', 'put_nowait', 'empty', 'full', 'qsize', '_get', '_put', 'task_done', '_wakeup_next'):
            f = cls.__dict__.get(name)
            if f is not None and hasattr(f, '__code__'):
                out.append(f.__code__)
    import asyncio.locks as lk
    for cls in (lk.Semaphore, lk.Lock, lk.Event):
        for name in ('locked', 'release', 'set', 'clear', 'is_set', '_wake_up_next', '_wake_up_first'):
            f = cls.__dict__.get(name)
            if f is not None and hasattr(f, '__code__'):
                out.append(f.__code__)
    return out


def enable_line_points(code_objects, foreign_only=()):
    """Make every source line of the given code objects a scheduling point
    (sys.monitoring LINE events). Used by the thorough tier to cover
    unsynchronised accesses between synchronisation operations."""
    mon = sys.monitoring
    try:
        mon.use_tool_id(_MON_TOOL, 'replicat-verif')
    except ValueError:
        pass

    def on_line(code, line):
        s = cur()
        if s is None or s.aborting or s.teardown:
            return
        try:
            rec = s.tls.rec
        except AttributeError:
            return
        if code in _FOREIGN_ONLY and rec.tid == 0:
            return
        s.point(f'L{line}')

    mon.register_callback(_MON_TOOL, mon.events.LINE, on_line)
    for co in code_objects:
        mon.set_local_events(_MON_TOOL, co, mon.events.LINE)
    for co in foreign_only:
        _FOREIGN_ONLY.add(co)
        mon.set_local_events(_MON_TOOL, co, mon.events.LINE)


def disable_line_points(code_objects):
    mon = sys.monitoring
    for co in code_objects:
        try:
            mon.set_local_events(_MON_TOOL, co, 0)
        except Exception:
            pass


def find_code(root_code, names):
    """Nested code objects by name (closures defined inside a function)."""
    out = []
    stack = [root_code]
    while stack:
        co = stack.pop()
        for c in co.co_consts:
            if isinstance(c, types.CodeType):
                if names is None or c.co_name in names:
                    out.append(c)
                stack.append(c)
    return out
