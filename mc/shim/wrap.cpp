#include REPLICAT_ADAPTERS_CPP
extern "C" {
void* gcl_new(size_t mn, size_t mx, const char* key, size_t keylen, char* err, size_t errlen) {
    try { return new gclmulchunker(mn, mx, py::buffer(key, keylen)); }
    catch (const std::exception& e) { snprintf(err, errlen, "%s", e.what()); return nullptr; }
}
void gcl_free(void* p) { delete static_cast<gclmulchunker*>(p); }
size_t gcl_next_cut(void* p, const char* buf, size_t n, int final) {
    return static_cast<gclmulchunker*>(p)->next_cut(py::buffer(buf, n), final != 0);
}
}
