#include REPLICAT_ADAPTERS_CPP
#include <cstdio>
#include <cstdlib>
#include <cstring>
int main(int argc, char** argv) {
    size_t mn = atoi(argv[1]), mx = atoi(argv[2]), n = atoi(argv[3]); int fin = atoi(argv[4]);
    char key[16]; memset(key, 0xFF, 16);
    gclmulchunker c(mn, mx, py::buffer(key, 16));
    char* buf = (char*)malloc(n); memset(buf, 'a', n);   // exact-size heap block: ASan redzone right after
    size_t r = c.next_cut(py::buffer(buf, n), fin);
    printf("cut=%zu\n", r); free(buf); return 0;
}
