// ASan driver: reads cases from stdin, one per line:  <min> <max> <keyhex32> <final> <datahex|->
// Every buffer is an exact-size heap block, so any read past the logical end hits a redzone.
#include REPLICAT_ADAPTERS_CPP
#include <cstdio>
#include <cstdlib>
#include <cstring>
#include <string>
#include <vector>
#include <iostream>
static int hexv(char c) { return c <= '9' ? c - '0' : (c | 32) - 'a' + 10; }
int main() {
    std::string line;
    long idx = 0;
    while (std::getline(std::cin, line)) {
        size_t mn, mx; int fin; char keyhex[64], *datahex;
        std::vector<char> dbuf(line.size() + 1);
        if (sscanf(line.c_str(), "%zu %zu %32s %d %s", &mn, &mx, keyhex, &fin, dbuf.data()) != 5) continue;
        char key[16];
        for (int i = 0; i < 16; i++) key[i] = (char)(hexv(keyhex[2 * i]) * 16 + hexv(keyhex[2 * i + 1]));
        datahex = dbuf.data();
        size_t n = (datahex[0] == '-') ? 0 : strlen(datahex) / 2;
        char* buf = (char*)malloc(n ? n : 1);
        for (size_t i = 0; i < n; i++) buf[i] = (char)(hexv(datahex[2 * i]) * 16 + hexv(datahex[2 * i + 1]));
        fprintf(stderr, "CASE %ld\n", idx); fflush(stderr);
        try {
            gclmulchunker c(mn, mx, py::buffer(key, 16));
            size_t r = c.next_cut(py::buffer(buf, n), fin != 0);
            printf("%ld %zu\n", idx, r);
        } catch (const std::exception& e) { printf("%ld ERR\n", idx); }
        free(buf);
        idx++;
    }
    fflush(stdout);
    return 0;
}
