// Minimal stand-in for pybind11 sufficient to compile replicat's src/adapters.cpp
#pragma once
#include <cstddef>
#include <string>
namespace pybind11 {
struct buffer_info { void* ptr = nullptr; ssize_t size = 0; ssize_t itemsize = 1; ssize_t ndim = 1; };
struct buffer {
    void* ptr_; ssize_t size_;
    buffer(const void* p, size_t n) : ptr_(const_cast<void*>(p)), size_((ssize_t)n) {}
    buffer_info request(bool = false) const { buffer_info b; b.ptr = ptr_; b.size = size_; return b; }
};
struct module_ {};
template <class... A> struct init_t {};
template <class... A> init_t<A...> init() { return {}; }
template <class T> struct class_ {
    template <class... X> class_(X&&...) {}
    template <class... X> class_& def(X&&...) { return *this; }
    template <class... X> class_& def_readonly(X&&...) { return *this; }
    template <class... X> class_& def_readwrite(X&&...) { return *this; }
};
}
#define PYBIND11_MODULE(name, var) static void pybind11_init_##name(pybind11::module_& var)
