"""File-system steps below the code under test.

The checks that look *inside* a local file-system mutation (kill points, fault positions, scheduling points)
used to interpose on the names the adapter happens to use (`Path`, `NamedTemporaryFile`). That ties coverage
to one way of writing a file: a change to `mkstemp`+`fdopen`, to `open()`, or to `os.replace` silently loses
the steps. This module interposes one level further down, on the `os` / `io` functions every such spelling
ends in, for paths under one root directory only:

    with FSteps(root, step):          # step(label, path) is called BEFORE the effect takes place
        ... code under test ...

`step` may return (go on), raise (the operation fails without effect), never return (process killed), or block
in a scheduler point. Labels: mkdir, open-w, open-r, write (file object) / os-write (raw descriptor), write-2nd-half, flush, close, rename, unlink, rmdir,
fsync, truncate, link, stat, fstat, read, scandir.  A write of n > 1 units is torn in two: the first half is
pushed to the operating system before `write-2nd-half`, so a kill or a reader scheduled there sees a half-written
file.

Only calls made by the thread(s) running code under test should reach `step`: the callback runs with
re-entrancy disabled, so whatever it does itself on the file system is not a step.
"""
from __future__ import annotations

import builtins
import io
import os
import threading

_WRITE_FLAGS = os.O_WRONLY | os.O_RDWR | os.O_CREAT | os.O_TRUNC | os.O_APPEND


class _KW:
    """Write-mode file object: every write, flush, truncate and the close are steps."""

    def __init__(self, fs, f, path):
        self.__dict__['_fs'] = fs
        self.__dict__['f'] = f
        self.__dict__['_path'] = path
        self.__dict__['_closed_step'] = False

    def write(self, data):
        fs = self._fs
        fs._step('write', self._path)
        n = len(data)
        half = n // 2
        if fs.torn and half:
            self.f.write(data[:half])
            self.f.flush()
            fs._step('write-2nd-half', self._path)
            self.f.write(data[half:])
            return n
        return self.f.write(data)

    def writelines(self, lines):
        for ln in lines:
            self.write(ln)

    def flush(self):
        self._fs._step('flush', self._path)
        return self.f.flush()

    def truncate(self, *a):
        self._fs._step('truncate', self._path)
        return self.f.truncate(*a)

    def read(self, *a):
        if self._fs.reads:
            self._fs._step('read', self._path)
        return self.f.read(*a)

    def close(self):
        try:
            if not self.f.closed and not self._closed_step:
                self.__dict__['_closed_step'] = True
                self._fs._step('close', self._path)
        finally:
            # a close that fails still releases the descriptor
            self._fs._forget(self.f)
            try:
                self.f.close()
            except Exception:
                if self._closed_step is False:
                    raise
        return None

    def __enter__(self):
        return self

    def __exit__(self, *a):
        self.close()

    def __iter__(self):
        return iter(self.f)

    def __getattr__(self, k):
        return getattr(self.f, k)

    def __setattr__(self, k, v):
        setattr(self.f, k, v)


class _KR:
    """Read-mode file object: every read is a step."""

    def __init__(self, fs, f, path):
        self.__dict__['_fs'] = fs
        self.__dict__['f'] = f
        self.__dict__['_path'] = path

    def read(self, *a):
        self._fs._step('read', self._path)
        return self.f.read(*a)

    def read1(self, *a):
        self._fs._step('read', self._path)
        return self.f.read1(*a)

    def readinto(self, b):
        self._fs._step('read', self._path)
        return self.f.readinto(b)

    def readall(self):
        self._fs._step('read', self._path)
        return self.f.readall()

    def close(self):
        self._fs._forget(self.f)
        return self.f.close()

    def __enter__(self):
        return self

    def __exit__(self, *a):
        self.close()

    def __iter__(self):
        return iter(self.f)

    def __getattr__(self, k):
        return getattr(self.f, k)


class FSteps:
    _OS_NAMES = ('open', 'write', 'read', 'close', 'mkdir', 'replace', 'rename', 'unlink', 'remove', 'rmdir', 'fsync', 'fdatasync',
                 'link', 'truncate', 'ftruncate', 'stat', 'lstat', 'fstat', 'scandir', 'listdir')

    def __init__(self, root, step, *, reads=True, torn=True, only_thread=None):
        self.root = os.path.abspath(os.fspath(root))
        self.rootb = os.fsencode(self.root)
        self.step_fn = step
        self.reads = reads
        self.torn = torn
        self.fds = {}          # fd -> (path, writable)
        self.tls = threading.local()
        self.saved = None
        self.only_thread = only_thread
        self.count = 0
        self.short_read_fn = None     # callable(path, nbytes) -> True: this raw os.read returns about half of what was asked
        self.short_write_fn = None    # callable(path, nbytes) -> True: this raw os.write writes only half of its data

    # -- plumbing
    def _under(self, path):
        if isinstance(path, int) or path is None:
            return None
        try:
            p = os.fspath(path)
        except TypeError:
            return None
        if isinstance(p, bytes):
            try:
                p = os.fsdecode(p)
            except Exception:
                return None
        if not os.path.isabs(p):
            p = os.path.abspath(p)
        if p == self.root or p.startswith(self.root + os.sep):
            return p
        # spelled with `..` or a symlinked prefix: normalise (cheap string operation, no file-system access)
        q = os.path.normpath(p)
        if q == self.root or q.startswith(self.root + os.sep):
            return q
        return None

    def _busy(self):
        return getattr(self.tls, 'busy', False)

    def _step(self, label, path):
        if self._busy():
            return
        if self.only_thread is not None and threading.get_ident() != self.only_thread:
            return
        self.tls.busy = True
        try:
            self.count += 1
            self.step_fn(label, path)
        finally:
            self.tls.busy = False

    # -- install / uninstall
    def __enter__(self):
        self.install()
        return self

    def __exit__(self, *a):
        self.uninstall()

    def install(self):
        assert self.saved is None
        real = {n: getattr(os, n) for n in self._OS_NAMES if hasattr(os, n)}
        self.saved = (real, io.open, builtins.open)
        fs = self
        r = real

        def k_open(path, flags, mode=0o777, *, dir_fd=None):
            p = fs._under(path) if dir_fd is None else None
            if p is None or fs._busy():
                return r['open'](path, flags, mode, dir_fd=dir_fd)
            w = bool(flags & _WRITE_FLAGS)
            if w:
                fs._step('open-w', p)
            elif fs.reads:
                fs._step('open-r', p)
            fd = r['open'](path, flags, mode, dir_fd=dir_fd)
            fs.fds[fd] = (p, w)
            return fd

        def k_write(fd, data):
            ent = fs.fds.get(fd)
            if ent is None or not ent[1] or fs._busy():
                return r['write'](fd, data)
            fs._step('os-write', ent[0])
            n = len(data)
            half = n // 2
            if half and fs.short_write_fn is not None and fs.short_write_fn(ent[0], n):
                # a short write is not an error: the caller is told how much was written and has to go on
                return r['write'](fd, data[:half])
            if fs.torn and half:
                done = r['write'](fd, data[:half])
                if done < half:
                    return done
                fs._step('write-2nd-half', ent[0])
                return half + r['write'](fd, data[half:])
            return r['write'](fd, data)

        def k_read(fd, n):
            ent = fs.fds.get(fd)
            if ent is None or fs._busy() or not fs.reads:
                return r['read'](fd, n)
            fs._step('os-read', ent[0])
            if n > 1 and fs.short_read_fn is not None and fs.short_read_fn(ent[0], n):
                # a raw read may return less than asked for without being at the end of the file
                return r['read'](fd, max(1, n // 2))
            return r['read'](fd, n)

        def k_close(fd):
            fs.fds.pop(fd, None)
            return r['close'](fd)

        def one_path(name, label, is_read=False):
            realfn = r[name]

            def k(path, *a, **kw):
                p = fs._under(path) if 'dir_fd' not in kw or kw['dir_fd'] is None else None
                if p is not None and not fs._busy() and (fs.reads or not is_read):
                    fs._step(label, p)
                return realfn(path, *a, **kw)
            k.__name__ = name
            return k

        def two_paths(name, label):
            realfn = r[name]

            def k(src, dst, *a, **kw):
                p = fs._under(dst) or fs._under(src)
                if p is not None and not fs._busy() and not kw.get('src_dir_fd') and not kw.get('dst_dir_fd'):
                    fs._step(label, p)
                return realfn(src, dst, *a, **kw)
            k.__name__ = name
            return k

        def fd_op(name, label, is_read=False):
            realfn = r[name]

            def k(fd, *a, **kw):
                ent = fs.fds.get(fd) if isinstance(fd, int) else None
                if ent is not None and not fs._busy() and (fs.reads or not is_read):
                    fs._step(label, ent[0])
                return realfn(fd, *a, **kw)
            k.__name__ = name
            return k

        def k_stat_like(name):
            realfn = r[name]

            def k(path, *a, **kw):
                if fs.reads and not fs._busy():
                    if isinstance(path, int):
                        ent = fs.fds.get(path)
                        if ent is not None:
                            fs._step('fstat', ent[0])
                    elif kw.get('dir_fd') is None:
                        p = fs._under(path)
                        if p is not None:
                            fs._step('stat', p)
                return realfn(path, *a, **kw)
            k.__name__ = name
            return k

        def k_truncate(path, length):
            if isinstance(path, int):
                ent = fs.fds.get(path)
                if ent is not None and not fs._busy():
                    fs._step('truncate', ent[0])
            else:
                p = fs._under(path)
                if p is not None and not fs._busy():
                    fs._step('truncate', p)
            return r['truncate'](path, length)

        def wrap_open(real_open):
            def k_io_open(file, mode='r', *a, **kw):
                if fs._busy():
                    return real_open(file, mode, *a, **kw)
                writable = any(c in mode for c in 'wax+')
                if isinstance(file, int):
                    ent = fs.fds.get(file)
                    if ent is None:
                        return real_open(file, mode, *a, **kw)
                    f = real_open(file, mode, *a, **kw)
                    fs._track_file(f, file, kw.get('closefd', True))
                    return _KW(fs, f, ent[0]) if writable else (_KR(fs, f, ent[0]) if fs.reads else f)
                if kw.get('opener') is not None:
                    # e.g. NamedTemporaryFile: the opener creates the file (through os.open, a step of its own)
                    f = real_open(file, mode, *a, **kw)
                    try:
                        ent = fs.fds.get(f.fileno())
                    except Exception:
                        ent = None
                    if ent is None:
                        return f
                    return _KW(fs, f, ent[0]) if writable else (_KR(fs, f, ent[0]) if fs.reads else f)
                p = fs._under(file)
                if p is None:
                    return real_open(file, mode, *a, **kw)
                if writable:
                    fs._step('open-w', p)
                    f = real_open(file, mode, *a, **kw)
                    fs._note_fileno(f, p, True)
                    return _KW(fs, f, p)
                if not fs.reads:
                    return real_open(file, mode, *a, **kw)
                fs._step('open-r', p)
                f = real_open(file, mode, *a, **kw)
                fs._note_fileno(f, p, False)
                return _KR(fs, f, p)
            return k_io_open

        os.open, os.write, os.close, os.read = k_open, k_write, k_close, k_read
        os.mkdir = one_path('mkdir', 'mkdir')
        os.unlink = one_path('unlink', 'unlink')
        os.remove = one_path('remove', 'unlink')
        os.rmdir = one_path('rmdir', 'rmdir')
        os.replace = two_paths('replace', 'rename')
        os.rename = two_paths('rename', 'rename')
        os.link = two_paths('link', 'link')
        os.fsync = fd_op('fsync', 'fsync')
        if 'fdatasync' in r:
            os.fdatasync = fd_op('fdatasync', 'fsync')
        os.ftruncate = fd_op('ftruncate', 'truncate')
        os.truncate = k_truncate
        os.stat = k_stat_like('stat')
        os.lstat = k_stat_like('lstat')
        os.fstat = k_stat_like('fstat')
        os.scandir = one_path('scandir', 'scandir', is_read=True)
        os.listdir = one_path('listdir', 'scandir', is_read=True)
        io.open = wrap_open(self.saved[1])
        builtins.open = io.open
        return self

    def _track_file(self, f, fd, closefd):
        pass

    def _forget(self, f):
        try:
            if not f.closed:
                self.fds.pop(f.fileno(), None)
        except Exception:
            pass

    def _note_fileno(self, f, p, writable):
        # so that os.fsync(f.fileno()) / os.fstat(f.fileno()) / os.ftruncate(...) on this file are steps too
        try:
            self.fds[f.fileno()] = (p, writable)
        except Exception:
            pass

    def uninstall(self):
        if self.saved is None:
            return
        real, io_open, b_open = self.saved
        for n, fn in real.items():
            setattr(os, n, fn)
        io.open = io_open
        builtins.open = b_open
        self.saved = None
        self.fds.clear()
