"""E2: explicit-state breadth-first search over command histories.

A state is what a fresh process would see: the backend object map (plus cache
directory contents where a check uses them) together with the harness's ground
truth ledger. Transitions run the REAL commands with fresh Repository objects
under the default schedule of the deterministic scheduler."""
from __future__ import annotations

import copy
import os
import shutil
from pathlib import Path

from mc import common, world as W
from mc.ref import format as F

# ---------------------------------------------------------------- data
B = [bytes([65 + i]) * 8 for i in range(26)]  # B[i] = one 8-byte block
FILESETS = {
    # overlap: F2 contains F1's file; F3.y shares a prefix with F2.y; F4 has a repeated block
    'F1': {'x': B[0] + B[1]},
    'F2': {'x': B[0] + B[1], 'y': B[2] + B[3] + B[4]},
    'F3': {'y': B[2] + B[3] + B[5]},
    'F4': {'z': B[6] + B[0] + B[6], 'w': b'pq'},
    'F5': {'x': B[0] + B[1], 'x2': B[0] + B[1]},
    # two files of equal size and different content whose chunks straddle the file boundary
    'F6': {'p': b'P' * 12, 'q': b'Q' * 12},
}
SETTINGS_ENC = W.default_settings(True, chunking={'min_length': 8, 'max_length': 8}, hashing={'name': 'blake2b', 'length': 20})
SETTINGS_UNENC = W.default_settings(False, chunking={'min_length': 8, 'max_length': 8}, hashing={'name': 'sha2', 'bits': 256})


def fixed_root(tag):
    """Scratch root shared by the orchestrator and its workers (same absolute
    paths everywhere, so recorded paths agree between processes)."""
    root = os.environ.get('VERIF_FIXED_ROOT')
    if root is None:
        sc = common.scratch_root()
        root = str(sc)
        os.environ['VERIF_FIXED_ROOT'] = root
    p = Path(root) / tag
    p.mkdir(parents=True, exist_ok=True)
    return p


def cleanup_fixed_root():
    root = os.environ.get('VERIF_FIXED_ROOT')
    if root:
        shutil.rmtree(root, ignore_errors=True)


def materialize(filesets=FILESETS):
    base = fixed_root('fs')
    out = {}
    for fsid, files in filesets.items():
        d = base / fsid
        if not d.exists():
            W.write_tree(d, files)
        out[fsid] = d
    return out


# ---------------------------------------------------------------- states
class State:
    __slots__ = ('o', 'ledger', 'seq', 'hist', 'users', 'caches', 'extra')

    def __init__(self, o, users, ledger=(), seq=0, hist=(), caches=None, extra=None):
        self.o = dict(o)
        self.users = users           # name -> dict(password, key, family, kind)
        self.ledger = list(ledger)   # dict(loc, name, owner, fsid, seq, chunks=[digest hex])
        self.seq = seq
        self.hist = list(hist)
        self.caches = caches or {}
        self.extra = extra or {}

    def clone(self):
        return State(self.o, self.users, copy.deepcopy(self.ledger), self.seq, self.hist, copy.deepcopy(self.caches),
                     copy.deepcopy(self.extra))

    def __getstate__(self):
        return {k: getattr(self, k) for k in self.__slots__}

    def __setstate__(self, d):
        for k, v in d.items():
            setattr(self, k, v)


def user_obj(state, uname):
    u = state.users[uname]
    return W.User(uname, u['password'], u['key'], u['family'])


def make_initial(kind, kdf=None):
    """kind 'enc': owner A, shared-key B (from A), independent C, clone A2 of A. kind 'unenc': single user U."""
    st = W.Store()
    W.set_random('init-' + kind)
    W.set_clock()
    if kind == 'unenc':
        W.run(W.a_init, st, SETTINGS_UNENC)
        users = {'U': {'password': None, 'key': None, 'family': 'plain', 'kind': 'plain'}}
        return State(st.o, users)
    keyA = W.run(W.a_init, st, SETTINGS_ENC, b'pw-A')
    A = W.User('A', b'pw-A', keyA)
    keyB = W.run(W.a_add_key, st, A, b'pw-B', True)
    keyC = W.run(W.a_add_key, st, A, b'pw-C', False)
    users = {
        'A': {'password': b'pw-A', 'key': keyA, 'family': 'fam1', 'kind': 'owner'},
        'B': {'password': b'pw-B', 'key': keyB, 'family': 'fam1', 'kind': 'shared'},
        'C': {'password': b'pw-C', 'key': keyC, 'family': 'fam2', 'kind': 'independent'},
    }
    return State(st.o, users)


def reader_for(state, uname, objects=None):
    u = state.users[uname]
    return F.Reader(objects if objects is not None else state.o, u['password'], u['key'])


# ---------------------------------------------------------------- transitions
class StepResult:
    def __init__(self):
        self.state = None
        self.exc = None
        self.calls = []
        self.mutations = []
        self.result = None
        self.stdout = ''


def apply(state: State, ev, fsdirs, N=2, backend=W.MemBackend, cache_of=None, fault=None):
    """Run one command as a fresh process. ev = ('snap', user, fsid) | ('del', user, [ledger idx]) |
    ('delname', user, [names]) | ('clean', user)."""
    new = state.clone()
    store = W.Store(new.o)
    store.fault = fault
    uname = ev[1]
    user = user_obj(new, uname)
    new.seq += 1
    W.set_random(f'{len(new.hist)}:{common.h(new.hist)}:{ev!r}')
    import datetime as dt
    W.set_clock(dt.datetime(2024, 1, 1) + dt.timedelta(hours=new.seq))
    res = StepResult()
    cache = cache_of(uname) if cache_of else None

    async def go():
        repo = await W.a_open(store, user, N=N, backend=backend, cache=cache)
        with W.captured() as (out, err):
            try:
                if ev[0] == 'snap':
                    r = await repo.snapshot(paths=[fsdirs[ev[2]]])
                elif ev[0] == 'snapargs':
                    r = await repo.snapshot(paths=snap_paths(fsdirs, ev[2], ev[3]))
                elif ev[0] == 'del':
                    names = [new.ledger[i]['name'] for i in ev[2]]
                    r = await repo.delete_snapshots(names, confirm=False)
                elif ev[0] == 'delname':
                    r = await repo.delete_snapshots(list(ev[2]), confirm=False)
                elif ev[0] == 'clean':
                    r = await repo.clean()
                else:
                    raise AssertionError(ev)
            finally:
                res.stdout = out.getvalue()
                await repo.close()
        return r

    try:
        r = W.run(go)
    except Exception as e:  # the command failed; the state is whatever it left behind
        res.exc = e
        r = None
    res.result = r
    res.calls = list(store.calls)
    res.mutations = list(store.mutations)
    new.o = dict(store.o)
    if ev[0] in ('snap', 'snapargs') and r is not None:
        new.ledger.append({'loc': r.location, 'name': r.name, 'owner': uname, 'fsid': ev[2], 'seq': new.seq,
                           'chunks': [d.hex() for d in r.chunks]})
    if ev[0] == 'del' and res.exc is None:
        gone = set(ev[2])
        new.ledger = [e for i, e in enumerate(new.ledger) if i not in gone]
    new.hist.append(_ev_json(ev))
    res.state = new
    return res


def snap_paths(fsdirs, fsid, order):
    """The files of a file set as individual path arguments, in the given order."""
    names = sorted(FILESETS[fsid])
    if order == 'rev':
        names = names[::-1]
    return [fsdirs[fsid] / n for n in names]


def _ev_json(ev):
    return [list(x) if isinstance(x, (tuple, list)) else x for x in ev]


# ---------------------------------------------------------------- canonical form
def canon(state: State):
    """Merge states that differ only in nonces/salts/absolute times. Key: the
    snapshots in timestamp order as (owner, file set), plus for every key family
    the set of chunk plaintexts present, plus bystander object names. Sound
    because no command branches on anything else (checked differentially: every
    representative of a class gets the full invariant)."""
    snaps = tuple((e['owner'], e['fsid']) for e in sorted(state.ledger, key=lambda e: e['seq']))
    fam_chunks = []
    seen_locs = set()
    for uname in sorted(state.users):
        u = state.users[uname]
        rd = reader_for(state, uname)
        mine = []
        for loc in state.o:
            if loc.startswith('data/') and (loc, u['family']) not in seen_locs and rd.owns_chunk_name(loc):
                seen_locs.add((loc, u['family']))
                try:
                    blob = state.o[loc]
                    name, _tag = rd.split_chunk_location(loc)
                    mine.append(name if not rd.encrypted else _plain_id(rd, loc))
                except Exception:
                    mine.append('?' + loc)
        fam_chunks.append((u['family'], tuple(sorted(mine))))
    other = tuple(sorted(k for k in state.o if not k.startswith(('data/', 'snapshots/'))))
    extra = tuple(sorted((k, repr(v)) for k, v in state.extra.items()))
    return common.h([snaps, sorted(set(fam_chunks)), other, extra, sorted(state.caches.items()) if state.caches else 0])


_PLAIN_CACHE = {}


def _plain_id(rd, loc):
    """Identify an encrypted chunk object by the digest hex of its plaintext, found by
    trying the known blocks (the harness knows every plaintext chunk it can produce)."""
    name, tag = rd.split_chunk_location(loc)
    return name  # MAC(digest) is a deterministic function of (family, plaintext)


# ---------------------------------------------------------------- BFS driver
def bfs(initial_states, expand, depth, procs=None, label=''):
    """expand(state) -> list of (event, successor State, canon key, [violations]).
    Level-synchronous BFS. Returns stats dict + violations."""
    seen = {}
    frontier = []
    for s in initial_states:
        k = canon(s)
        if k not in seen:
            seen[k] = 0
            frontier.append(s)
    transitions = 0
    viol = []
    per_level = [len(frontier)]
    samples = []
    merged = 0
    for d in range(1, depth + 1):
        nxt = []
        for out in common.pmap(expand, frontier, procs=procs, ordered=True):
            for ev, succ, k, vs in out:
                transitions += 1
                viol.extend(vs)
                if len(samples) < 5 and len(succ.hist) == d:
                    samples.append(succ.hist)
                if k in seen:
                    merged += 1
                    continue
                seen[k] = d
                nxt.append(succ)
        frontier = common.shuffled(nxt, salt=f'{label}{d}')
        per_level.append(len(frontier))
        if not frontier:
            break
    return {'states': len(seen), 'transitions': transitions, 'per_level': per_level, 'merged': merged,
            'depth': depth, 'samples': samples}, viol


# ---------------------------------------------------------------- oracles shared by C02/C06/C07/C08
_SCR = {}


def worker_scratch():
    sc = _SCR.get(os.getpid())
    if sc is None:
        sc = _SCR[os.getpid()] = common.Scratch()
    return sc


def expected_files(entry, fsdirs, filesets=FILESETS):
    d = fsdirs[entry['fsid']]
    return {str(d / rel): data for rel, data in filesets[entry['fsid']].items()}


def restore_as(state, uname, fsdirs, snapshot_regex=None, file_regex=None, N=2, cache=None, objects=None):
    """Fresh process: unlock as `uname`, restore into a new directory. Returns (result|exc, tree)."""
    sc = worker_scratch()
    target = sc.sub()
    store = W.Store(objects if objects is not None else state.o)
    user = user_obj(state, uname)

    async def go():
        repo = await W.a_open(store, user, N=N, cache=cache)
        with W.captured():
            try:
                return await repo.restore(snapshot_regex=snapshot_regex, file_regex=file_regex, path=target)
            finally:
                await repo.close()

    try:
        res = W.run(go)
        exc = None
    except Exception as e:
        res, exc = None, e
    tree = {p: v[0] for p, v in W.read_tree(target).items()}
    shutil.rmtree(target, ignore_errors=True)
    return res, exc, tree, target, store


def invariant_restorable(state, fsdirs, filesets=FILESETS):
    """Every ledger snapshot: its owner restores it and gets exactly the captured
    content; the independent reader finds every digest of every chunk table
    present with bytes that hash to it. Also: listed snapshot objects == ledger."""
    problems = []
    listed = {k for k in state.o if k.startswith('snapshots/')}
    ledger_locs = {e['loc'] for e in state.ledger}
    if listed != ledger_locs:
        problems.append({'what': 'snapshot-set', 'unexpected': sorted(listed - ledger_locs)[:3],
                         'missing': sorted(ledger_locs - listed)[:3]})
    for e in state.ledger:
        if e['loc'] not in state.o:
            continue
        want = expected_files(e, fsdirs, filesets)
        # independent reader, as the owner
        try:
            rd = reader_for(state, e['owner'])
            got = rd.files(e['loc'])
            if got != want:
                problems.append({'what': 'reader-content', 'snapshot': e['fsid'], 'owner': e['owner']})
        except (F.FormatError, KeyError) as ex:
            problems.append({'what': 'reader-error', 'snapshot': e['fsid'], 'owner': e['owner'], 'err': repr(ex)[:200]})
        # replicat itself, as the owner
        res, exc, tree, target, _ = restore_as(state, e['owner'], fsdirs, snapshot_regex='^' + e['name'] + '$')
        if exc is not None:
            problems.append({'what': 'restore-error', 'snapshot': e['fsid'], 'owner': e['owner'], 'err': repr(exc)[:200]})
            continue
        want_t = {W.restore_path(target, p): d for p, d in want.items()}
        if tree != want_t:
            problems.append({'what': 'restore-content', 'snapshot': e['fsid'], 'owner': e['owner'],
                             'got': {Path(k).name: v for k, v in tree.items()},
                             'want': {Path(k).name: v for k, v in want_t.items()}})
    return problems


def referenced_chunk_names(state, ledger=None):
    """Chunk object names referenced by the given ledger snapshots (via the reference reader)."""
    names = set()
    for e in (state.ledger if ledger is None else ledger):
        if e['loc'] not in state.o:
            continue
        rd = reader_for(state, e['owner'])
        snap = rd.snapshot(e['loc'])
        for d in snap['chunks']:
            names.add(rd.chunk_location(d))
    return names


def standard_events(state, fs_menu, users=None, max_del=2):
    evs = []
    for u in (users or sorted(state.users)):
        for fsid in fs_menu:
            evs.append(('snap', u, fsid))
        own = [i for i, e in enumerate(state.ledger) if e['owner'] == u]
        for i in own:
            evs.append(('del', u, (i,)))
        if max_del >= 2:
            for a in range(len(own)):
                for b in range(a + 1, len(own)):
                    evs.append(('del', u, (own[a], own[b])))
        evs.append(('clean', u))
    return evs


def temporal_reference_check(before: State, after: State, mutations):
    """Replay the mutation log of one command over the pre-state: at the moment a
    chunk object is deleted (or overwritten with different bytes), no snapshot
    object that is present at that moment may reference it."""
    refs = {}
    for st in (before, after):
        for e in st.ledger:
            if e['loc'] in refs:
                continue
            rd = reader_for(st, e['owner'])
            refs[e['loc']] = {rd.chunk_location(bytes.fromhex(d)) for d in e['chunks']}
    present = dict(before.o)
    problems = []
    for kind, name, data in mutations:
        if name.startswith('data/'):
            if kind == 'del' or (kind == 'put' and name in present and present[name] != data):
                holders = [loc for loc, names in refs.items() if loc in present and name in names]
                if holders:
                    problems.append({'what': 'referenced-chunk-' + ('deleted' if kind == 'del' else 'overwritten'),
                                     'chunk': name, 'snapshot': holders[0]})
        if kind == 'del':
            present.pop(name, None)
        else:
            present[name] = data
    return problems


# ---------------------------------------------------------------- long-lived sessions
def run_session(state0: State, events, fsdirs, N=2, backend=W.MemBackend, fault_for=None, one_object=False):
    """Library-style use: ONE Repository object per user is kept for the whole
    history (all commands run in one event loop). Returns the list of
    (event, State after it, StepResult)."""
    import datetime as dt
    store = W.Store(state0.o)
    cur = state0.clone()
    out = []
    W.set_random(f'session:{events!r}')

    async def go():
        repos = {}
        try:
            for ev in events:
                uname = ev[1]
                new = cur_holder[0].clone()
                new.seq += 1
                W.set_clock(dt.datetime(2024, 1, 1) + dt.timedelta(hours=new.seq))
                res = StepResult()
                m0, c0 = len(store.mutations), len(store.calls)
                if fault_for is not None:
                    # fault_for(position of the event, call index at its start) -> fault callable or None
                    store.fault = fault_for(len(out), c0)
                with W.captured():
                    try:
                        if one_object:
                            # ONE Repository object for everybody: unlocked again whenever the actor changes
                            usr = user_obj(new, uname)
                            if '*' not in repos:
                                repos['*'] = await W.a_open(store, usr, N=N, backend=backend)
                                repos['who'] = uname
                            elif repos['who'] != uname:
                                if usr is None or usr.key is None:
                                    await repos['*'].unlock()
                                else:
                                    await repos['*'].unlock(password=usr.password, key=usr.key)
                                repos['who'] = uname
                            repo = repos['*']
                        else:
                            if uname not in repos:
                                repos[uname] = await W.a_open(store, user_obj(new, uname), N=N, backend=backend)
                            repo = repos[uname]
                        if ev[0] == 'snap':
                            r = await repo.snapshot(paths=[fsdirs[ev[2]]])
                        elif ev[0] == 'snapargs':
                            r = await repo.snapshot(paths=snap_paths(fsdirs, ev[2], ev[3]))
                        elif ev[0] == 'delall':
                            own = [e['name'] for e in new.ledger if e['owner'] == uname]
                            r = await repo.delete_snapshots(own, confirm=False) if own else None
                        elif ev[0] == 'del':
                            r = await repo.delete_snapshots([new.ledger[i]['name'] for i in ev[2]], confirm=False)
                        elif ev[0] == 'clean':
                            r = await repo.clean()
                        elif ev[0] == 'restore':
                            r = await repo.restore(path=ev[2], snapshot_regex=ev[3] if len(ev) > 3 else None)
                        else:
                            raise AssertionError(ev)
                    except Exception as e:
                        res.exc, r = e, None
                res.result = r
                res.mutations = store.mutations[m0:]
                res.calls = store.calls[c0:]
                new.o = dict(store.o)
                if ev[0] in ('snap', 'snapargs') and r is not None:
                    new.ledger.append({'loc': r.location, 'name': r.name, 'owner': uname, 'fsid': ev[2], 'seq': new.seq,
                                       'chunks': [d.hex() for d in r.chunks]})
                if ev[0] == 'del' and res.exc is None:
                    gone = set(ev[2])
                    new.ledger = [e for i, e in enumerate(new.ledger) if i not in gone]
                if ev[0] == 'delall' and res.exc is None:
                    new.ledger = [e for e in new.ledger if e['owner'] != uname]
                new.hist.append(_ev_json(ev))
                res.state = new
                out.append((ev, new, res))
                cur_holder[0] = new
        finally:
            with W.captured():
                for r in repos.values():
                    if isinstance(r, str):
                        continue
                    try:
                        await r.close()
                    except Exception:
                        pass

    cur_holder = [cur]
    W.run(go)
    return out


def chunk_area(state):
    return {k for k in state.o if k.startswith('data/')}


def referenced_names_all(state):
    """Names of all chunk objects referenced by the snapshot objects present, decoded
    by the independent reader as any member of the owning family."""
    names = set()
    for e in state.ledger:
        if e['loc'] not in state.o:
            continue
        rd = reader_for(state, e['owner'])
        for d in rd.snapshot(e['loc'])['chunks']:
            names.add(rd.chunk_location(d))
    return names
