"""./check --replay <file>: re-run one recorded violating case through the
check's plain `replay(case)` function (no explorer) and report whether the same
violation is observed. Exit 1 if it reproduces, 0 if not."""
import importlib.util
import json
import sys
from pathlib import Path

VERIF = Path(__file__).resolve().parent.parent


def main():
    path = Path(sys.argv[1])
    case = json.loads(path.read_text())
    pid = case['property']
    spec = importlib.util.spec_from_file_location(f'check_{pid}', VERIF / 'checks' / f'{pid}.py')
    mod = importlib.util.module_from_spec(spec)
    sys.modules[spec.name] = mod
    spec.loader.exec_module(mod)
    res = mod.replay(case['replay'])
    print(json.dumps(res, indent=1, default=repr)[:6000])
    reproduced = bool(res.get('violations'))
    print('REPRODUCED' if reproduced else 'NOT REPRODUCED')
    sys.exit(1 if reproduced else 0)


if __name__ == '__main__':
    main()
