"""Fake S3 and B2 services as httpx transports. They speak the documented wire
protocol from the bytes they receive (raw request target, headers, body) and keep
a plain name -> bytes map. Fault injection is driven by a callable."""
from __future__ import annotations

import base64
import json
from urllib.parse import unquote, unquote_to_bytes
from xml.sax.saxutils import escape

import httpx


class Fault:
    """What to do with one request. kind:
    connect-error | status (code, headers) | drop-response-after (k body chunks) |
    fail-after-request-chunks (k) | None"""

    def __init__(self, kind=None, **kw):
        self.kind = kind
        self.kw = kw


class _Stream(httpx.AsyncByteStream):
    def __init__(self, chunks, fail_after=None, protocol=False):
        self.chunks, self.fail_after, self.protocol = chunks, fail_after, protocol

    def _err(self, msg):
        if self.protocol:
            return httpx.RemoteProtocolError('peer closed connection without sending complete message body ' + msg)
        return httpx.ReadError('connection dropped ' + msg)

    async def __aiter__(self):
        for i, c in enumerate(self.chunks):
            if self.fail_after is not None and i >= self.fail_after:
                raise self._err('while reading the response body')
            yield c
        if self.fail_after is not None and self.fail_after >= len(self.chunks):
            raise self._err('at the end of the response body')

    async def aclose(self):
        pass


def _resp(request, status, body=b'', headers=None, chunk=None, fail_after=None, protocol=False):
    h = {'content-length': str(len(body))}
    h.update(headers or {})
    if chunk:
        chunks = [body[i:i + chunk] for i in range(0, len(body), chunk)]
    else:
        chunks = [body] if body else []
    return httpx.Response(status, headers=h, stream=_Stream(chunks, fail_after, protocol), request=request)


class Unbounded(Exception):
    """Raised by a fake service when one adapter operation has issued more requests than
    any bounded retry policy would (the harness resets the budget before each operation)."""


class Recorded:
    __slots__ = ('method', 'target', 'headers', 'body', 'host', 'scheme', 'complete', 'body_chunks')

    def __init__(self, **kw):
        for k, v in kw.items():
            setattr(self, k, v)


class BaseFake(httpx.AsyncBaseTransport):
    def __init__(self):
        self.o = {}
        self.requests = []
        self.fault_fn = None   # callable(index, Recorded-without-body) -> Fault | None
        self.n = 0
        self.body_chunk = None  # response body chunking
        self.budget = None      # remaining requests for the current operation (None = unlimited)
        self.latency = False    # True: every request waits for the scheduler's environment before it is served
        self.before_serve = None  # callable(index, Recorded) run when the request reaches the service

    async def _read(self, request, limit=None):
        chunks = []
        i = 0
        async for c in request.stream:
            if limit is not None and i >= limit:
                return b''.join(chunks), False, i
            chunks.append(bytes(c))
            i += 1
        return b''.join(chunks), True, i

    def on_fault(self, rec):
        pass

    def reset_budget(self, n=200):
        self.budget = n

    async def handle_async_request(self, request):
        idx = self.n
        self.n += 1
        if self.budget is not None:
            self.budget -= 1
            if self.budget < 0:
                raise Unbounded(f'more than the allowed number of requests for one operation ({request.method} {request.url.path})')
        rec = Recorded(method=request.method, target=request.url.raw_path, headers=[(k.lower(), v) for k, v in request.headers.raw],
                       body=None, host=request.url.netloc, scheme=request.url.scheme, complete=False, body_chunks=0)
        if self.latency:
            from mc import dsched
            s_ = dsched.cur()
            if s_ is not None and s_.env is not None and not s_.teardown:
                await s_.env.wait(f'{request.method} {request.url.path}')
        if self.before_serve is not None:
            self.before_serve(idx, rec)
        fault = self.fault_fn(idx, rec) if self.fault_fn else None
        if fault is not None and fault.kind is not None:
            self.on_fault(rec)
        if fault is not None and fault.kind == 'connect-error':
            self.requests.append(rec)
            raise httpx.ConnectError('connection refused')
        if fault is not None and fault.kind == 'protocol-error':
            self.requests.append(rec)
            raise httpx.RemoteProtocolError('server disconnected without sending a response')
        limit = fault.kw['k'] if fault is not None and fault.kind == 'fail-after-request-chunks' else None
        body, complete, nchunks = await self._read(request, limit)
        rec.body, rec.complete, rec.body_chunks = body, complete, nchunks
        self.requests.append(rec)
        if fault is not None and fault.kind == 'fail-after-request-chunks':
            raise httpx.WriteError('connection reset while sending the request body')
        if fault is not None and fault.kind == 'status':
            return _resp(request, fault.kw['code'], fault.kw.get('body', b'fault'), fault.kw.get('headers'))
        resp = await self.serve(request, rec)
        if fault is not None and fault.kind == 'drop-response-after':
            body = b''.join([c async for c in _Stream(resp.stream.chunks)])
            chunk = self.body_chunk or max(1, len(body))
            return _resp(request, resp.status_code, body, dict(resp.headers), chunk=chunk, fail_after=fault.kw['k'],
                         protocol=fault.kw.get('protocol', False))
        return resp


class FakeS3(BaseFake):
    """Path-style S3: /bucket/key. Listing pages of `page` keys with opaque continuation tokens."""

    def __init__(self, bucket='bucket', page=2):
        super().__init__()
        self.bucket, self.page = bucket, page

    async def serve(self, request, rec):
        raw = rec.target
        path, _, query = raw.partition(b'?')
        path = unquote(path.decode('ascii'))
        if not path.startswith('/' + self.bucket):
            return _resp(request, 404, b'NoSuchBucket')
        key = path[len('/' + self.bucket):]
        if key.startswith('/'):
            key = key[1:]
        if key == '' and request.method == 'GET':
            q = {}
            for part in query.decode('ascii').split('&') if query else []:
                k, _, v = part.partition('=')
                q[unquote(k.replace('+', ' '))] = unquote(v.replace('+', ' '))
            prefix = q.get('prefix', '')
            names = sorted(n for n in self.o if n.startswith(prefix))
            start = 0
            tok = q.get('continuation-token')
            if tok is not None:
                try:
                    after = base64.b64decode(tok.encode()).decode()
                except Exception:
                    return _resp(request, 400, b'InvalidToken')
                start = len([n for n in names if n <= after])
            page = names[start:start + self.page]
            truncated = start + self.page < len(names)
            xml = ['<?xml version="1.0" encoding="UTF-8"?><ListBucketResult xmlns="http://s3.amazonaws.com/doc/2006-03-01/">']
            xml.append(f'<Name>{self.bucket}</Name><Prefix>{escape(prefix)}</Prefix><KeyCount>{len(page)}</KeyCount>')
            xml.append(f'<IsTruncated>{"true" if truncated else "false"}</IsTruncated>')
            for n in page:
                xml.append(f'<Contents><Key>{escape(n)}</Key><Size>{len(self.o[n])}</Size></Contents>')
            if truncated:
                t = base64.b64encode(page[-1].encode()).decode()
                xml.append(f'<NextContinuationToken>{t}</NextContinuationToken>')
            xml.append('</ListBucketResult>')
            return _resp(request, 200, ''.join(xml).encode(), {'content-type': 'application/xml'}, chunk=self.body_chunk)
        if request.method == 'HEAD':
            if key in self.o:
                return _resp(request, 200, b'', {'content-length': str(len(self.o[key]))})
            return _resp(request, 404)
        if request.method == 'GET':
            if key not in self.o:
                return _resp(request, 404, b'NoSuchKey')
            return _resp(request, 200, self.o[key], chunk=self.body_chunk)
        if request.method == 'PUT':
            declared = dict(rec.headers).get(b'content-length')
            if declared is not None and int(declared) != len(rec.body):
                return _resp(request, 400, b'IncompleteBody')
            self.o[key] = rec.body
            return _resp(request, 200)
        if request.method == 'DELETE':
            self.o.pop(key, None)
            return _resp(request, 204)
        return _resp(request, 405)


class FakeB2(BaseFake):
    """api.backblazeb2.com + api/download hosts in one transport."""

    API = 'https://api001.fake-b2.test'
    DL = 'https://f001.fake-b2.test'

    def __init__(self, bucket='bucket', page=2, restricted=False):
        super().__init__()
        self.bucket, self.bucket_id, self.page = bucket, 'bkt-id-1', page
        self.token_gen = 0
        self.valid_tokens = set()
        self.upload_tokens = set()
        self.restricted = restricted
        self.auth_count = 0

    def _json(self, request, status, obj, headers=None):
        return _resp(request, status, json.dumps(obj).encode(), dict({'content-type': 'application/json'}, **(headers or {})),
                     chunk=self.body_chunk)

    def expire_tokens(self):
        self.valid_tokens.clear()
        self.upload_tokens.clear()

    def on_fault(self, rec):
        # B2: after any failure of an upload the upload URL / token pair must not be used again
        if rec.target.split(b'?')[0].endswith(b'/b2_upload_file'):
            for k, v in rec.headers:
                if k == b'authorization':
                    self.upload_tokens.discard(v.decode('latin-1'))

    async def serve(self, request, rec):
        raw = rec.target
        path, _, query = raw.partition(b'?')
        pathd = unquote(path.decode('ascii'))
        hdr = {k.decode(): v.decode('latin-1') for k, v in rec.headers}
        host = rec.host.decode()
        if pathd == '/b2api/v2/b2_authorize_account':
            self.auth_count += 1
            self.token_gen += 1
            tok = f'acct-token-{self.token_gen}'
            self.valid_tokens.add(tok)   # earlier, unexpired authorizations stay valid (as with the real service)
            allowed = {'bucketId': self.bucket_id if self.restricted else None,
                       'bucketName': self.bucket if self.restricted else None}
            return self._json(request, 200, {'accountId': 'acc1', 'authorizationToken': tok, 'apiUrl': self.API,
                                             'downloadUrl': self.DL, 'allowed': allowed})
        if pathd.startswith('/b2api/v2/'):
            op = pathd.rsplit('/', 1)[1]
            if op == 'b2_upload_file':
                if hdr.get('authorization') not in self.upload_tokens:
                    return self._json(request, 401, {'code': 'expired_auth_token', 'status': 401})
                name = unquote(hdr['x-bz-file-name'])
                if int(hdr.get('content-length', -1)) != len(rec.body):
                    return self._json(request, 400, {'code': 'bad_request', 'message': 'length mismatch'})
                self.o[name] = rec.body
                return self._json(request, 200, {'fileName': name})
            if hdr.get('authorization') not in self.valid_tokens:
                return self._json(request, 401, {'code': 'expired_auth_token', 'status': 401})
            body = json.loads(rec.body or b'{}')
            if op == 'b2_list_buckets':
                return self._json(request, 200, {'buckets': [{'bucketId': 'other-id', 'bucketName': 'other'},
                                                             {'bucketId': self.bucket_id, 'bucketName': self.bucket}]})
            if op == 'b2_get_upload_url':
                self.token_gen += 1
                t = f'upload-token-{self.token_gen}'
                self.upload_tokens.add(t)
                return self._json(request, 200, {'uploadUrl': self.API + '/b2api/v2/b2_upload_file', 'authorizationToken': t})
            if op == 'b2_list_file_names':
                prefix = body.get('prefix') or ''
                start = body.get('startFileName')
                names = sorted(n for n in self.o if n.startswith(prefix) and (start is None or n >= start))
                page = names[:self.page]
                nxt = names[self.page] if len(names) > self.page else None
                return self._json(request, 200, {'files': [{'fileName': n} for n in page], 'nextFileName': nxt})
            if op == 'b2_hide_file':
                name = body['fileName']
                if name not in self.o:
                    return self._json(request, 400, {'code': 'no_such_file', 'status': 400})
                del self.o[name]
                return self._json(request, 200, {'fileName': name})
            return self._json(request, 400, {'code': 'bad_request'})
        if pathd.startswith('/file/'):
            if hdr.get('authorization') not in self.valid_tokens:
                return self._json(request, 401, {'code': 'expired_auth_token', 'status': 401})
            rest = pathd[len('/file/'):]
            b, _, name = rest.partition('/')
            if b != self.bucket or name not in self.o:
                return self._json(request, 404, {'code': 'not_found', 'status': 404})
            if request.method == 'HEAD':
                return _resp(request, 200, b'', {'content-length': str(len(self.o[name]))})
            return _resp(request, 200, self.o[name], chunk=self.body_chunk)
        return self._json(request, 404, {'code': 'not_found'})


_FOR_NEW_CLIENTS = [None]
_real_client_init = httpx.AsyncClient.__init__


def _client_init(self, *a, **kw):
    fake = _FOR_NEW_CLIENTS[0]
    if fake is not None and kw.get('transport') is None:
        kw['transport'] = fake
        kw.pop('mounts', None)
        kw.pop('proxy', None)
        kw.pop('proxies', None)
    _real_client_init(self, *a, **kw)


httpx.AsyncClient.__init__ = _client_init


def _route(c, fake):
    c._transport = fake
    c._mounts = {}


def install(client, fake):
    """Route a backend's HTTP traffic through the fake: every httpx.AsyncClient the backend object holds (under
    whatever attribute name, also inside containers one level down), and every client created from now on
    (a backend may create its client lazily or per request)."""
    seen = 0
    for v in list(vars(client).values()):
        if isinstance(v, httpx.AsyncClient):
            _route(v, fake)
            seen += 1
        elif isinstance(v, (list, tuple, set)):
            for x in v:
                if isinstance(x, httpx.AsyncClient):
                    _route(x, fake)
                    seen += 1
        elif isinstance(v, dict):
            for x in v.values():
                if isinstance(x, httpx.AsyncClient):
                    _route(x, fake)
                    seen += 1
    _FOR_NEW_CLIENTS[0] = fake
    return fake
