"""E1 driver: enumerate all executions of a harness with at most `bound`
deviations from the default choice (choice 0 at every point), sharded over
worker processes. Executions always run to completion.

A runner is a top-level function  runner(params, prefix) -> dict  with keys
  points   [(n_alternatives, chosen, kind)]  every choice point met, in order
  outcome  small JSON-able summary used to count distinct outcomes
  obs      complete observation (compared between two replays of the same prefix)
  viol     [(signature dict, detail dict)]
  order    hashable digest of the backend call order
  states/edges   sets of ints (optional)
  err      None | 'hang' | 'capped' | 'diverged'   plus 'errmsg'
"""
from __future__ import annotations

import json
import time

from mc import common

_RUNNERS = {}


def register(fn):
    _RUNNERS[fn.__name__] = fn
    return fn


class Agg:
    def __init__(self):
        self.executions = 0
        self.by_dev = {}
        self.outcomes = {}   # key -> [count, example choices]
        self.viol = []
        self.nviol = 0
        self.orders = set()
        self.states = set()
        self.edges = set()
        self.max_points = 0
        self.total_points = 0
        self.errs = {}       # kind -> [count, example, msg]
        self.max_inflight = 0
        self.kinds = {}

    def add(self, r, prefix, dev):
        self.executions += 1
        self.by_dev[dev] = self.by_dev.get(dev, 0) + 1
        pts = r['points']
        self.max_points = max(self.max_points, len(pts))
        self.total_points += len(pts)
        key = json.dumps(common.jsonable(r['outcome']), sort_keys=True)
        o = self.outcomes.setdefault(key, [0, [p[1] for p in pts]])
        o[0] += 1
        for sig, detail in r.get('viol', ()):
            self.nviol += 1
            if len(self.viol) < 40:
                self.viol.append((sig, dict(detail, choices=[p[1] for p in pts])))
        if r.get('order') is not None:
            self.orders.add(r['order'])
        if len(self.states) < 2_000_000:
            self.states |= r.get('states', set())
            self.edges |= r.get('edges', set())
        if r.get('err'):
            e = self.errs.setdefault(r['err'], [0, [p[1] for p in pts], r.get('errmsg', '')])
            e[0] += 1
        self.max_inflight = max(self.max_inflight, r.get('inflight', 0))

    def merge(self, o: 'Agg'):
        self.executions += o.executions
        for k, v in o.by_dev.items():
            self.by_dev[k] = self.by_dev.get(k, 0) + v
        for k, v in o.outcomes.items():
            if k in self.outcomes:
                self.outcomes[k][0] += v[0]
            else:
                self.outcomes[k] = v
        self.nviol += o.nviol
        self.viol.extend(o.viol[: max(0, 40 - len(self.viol))])
        self.orders |= o.orders
        if len(self.states) < 4_000_000:
            self.states |= o.states
            self.edges |= o.edges
        self.max_points = max(self.max_points, o.max_points)
        self.total_points += o.total_points
        for k, v in o.errs.items():
            if k in self.errs:
                self.errs[k][0] += v[0]
            else:
                self.errs[k] = v
        self.max_inflight = max(self.max_inflight, o.max_inflight)


def _children(points, start, budget_left, dev, free=()):
    """Alternatives after position `start`. A deviation at a point whose kind is in
    `free` costs nothing (those points are explored exhaustively)."""
    out = []
    base = [(p[1], p[0], p[2]) for p in points]
    for i in range(start, len(points)):
        n = points[i][0]
        kind = points[i][2]
        cost = 0 if kind in free else 1
        if cost > budget_left:
            continue
        for alt in range(1, n):
            out.append((base[:i] + [(alt, n, kind)], budget_left - cost, dev + cost))
    return out


def _subtree(args):
    rname, params, items = args
    runner = _RUNNERS[rname]
    agg = Agg()
    stack = list(items)
    while stack:
        prefix, budget, dev = stack.pop()
        r = runner(params, prefix)
        agg.add(r, prefix, dev)
        if r.get('err') == 'diverged':
            continue
        stack.extend(_children(r['points'], len(prefix), budget, dev, params.get('_free', ())))
    return agg


def _root(args):
    rname, params, bound = args
    runner = _RUNNERS[rname]
    r1 = runner(params, [])
    r2 = runner(params, [])
    det = (common.jsonable(r1['obs']) == common.jsonable(r2['obs'])) and \
        ([tuple(p) for p in r1['points']] == [tuple(p) for p in r2['points']])
    agg = Agg()
    agg.add(r1, [], 0)
    kids = _children(r1['points'], 0, bound, 0, params.get('_free', ()))
    # replay determinism on a deviating prefix as well
    if kids:
        k = kids[len(kids) // 2]
        a = runner(params, k[0])
        b = runner(params, k[0])
        det = det and common.jsonable(a['obs']) == common.jsonable(b['obs'])
    return agg, kids, det, common.jsonable(r1['obs'])


def explore(runner, params, bound, procs=None):
    """Returns (Agg, info). Everything with <= bound deviations is enumerated."""
    t0 = time.time()
    rname = runner.__name__
    _RUNNERS[rname] = runner
    (agg, kids, det, obs0), = list(common.pmap(_root, [(rname, params, bound)], procs=1, force=True))
    info = {'deterministic_replay': det, 'default_observation': obs0, 'bound': bound}
    if kids:
        kids = common.shuffled(kids, salt=rname)
        nb = max(1, min(len(kids), (procs or common.NPROC) * 6))
        batches = [kids[i::nb] for i in range(nb)]
        for a in common.pmap(_subtree, [(rname, params, b) for b in batches], procs=procs, ordered=False):
            agg.merge(a)
    info['wall_s'] = round(time.time() - t0, 2)
    return agg, info



def canon_order(calls):
    """Hashable form of a backend call sequence. Snapshot object names depend on the worker's scratch path (through
    the file paths recorded in the snapshot), so they are replaced by the index of their first occurrence; chunk names
    are content-derived and stay as they are. Two executions with the same order of calls then count as one order
    whichever worker process ran them."""
    idx = {}
    out = []
    for c in calls:
        kind, name = c[0], c[1]
        if isinstance(name, str) and name.startswith('snapshots/'):
            if name not in idx:
                idx[name] = f'snapshots/#{len(idx)}'
            name = idx[name]
        out.append((kind, name))
    return hash(tuple(out))
