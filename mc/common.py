"""Shared runtime for all checks: bootstrapping the replicat import from the
working tree, tiers/seeds, evidence, violations, known findings, parallel map.

Everything here is harness code; nothing in it decides a property."""
from __future__ import annotations

import hashlib
import json
import multiprocessing
import os
import random
import shutil
import subprocess
import sys
import tempfile
import time
import traceback
from pathlib import Path

VERIF = Path(__file__).resolve().parent.parent
REPO = Path(os.environ.get('REPLICAT_SRC', '/repo')).resolve()
SCHEMA = Path('/root/.vp/EVIDENCE.schema.json')
NPROC = int(os.environ.get('VERIF_PROCS', '16'))


def tier() -> str:
    t = os.environ.get('VERIF_TIER', 'quick')
    return t if t in ('quick', 'thorough') else 'quick'


def seed() -> int:
    try:
        return int(os.environ.get('VERIF_SEED', '0'))
    except ValueError:
        return 0


def bootstrap():
    """Make `import replicat` resolve to the working tree under REPO with the
    chunker rebuilt from REPO/src/adapters.cpp."""
    if os.environ.get('PYTHONHASHSEED') != '0':
        os.environ['PYTHONHASHSEED'] = '0'
        os.execv(sys.executable, [sys.executable] + sys.argv)
    os.environ['VERIF_MAINPID'] = str(os.getpid())
    os.environ.pop('VERIF_FIXED_ROOT', None)
    sys.path.insert(0, str(REPO))
    if str(VERIF) not in sys.path:
        sys.path.insert(1, str(VERIF))
    from mc import native

    native.install(REPO)
    import tqdm

    tqdm.tqdm.monitor_interval = 0
    import replicat.repository as R

    assert Path(R.__file__).resolve().is_relative_to(REPO), (R.__file__, REPO)
    import logging

    logging.disable(logging.CRITICAL)
    return R


# ---------------------------------------------------------------- scratch space
def _scratch_base():
    return '/dev/shm' if os.path.isdir('/dev/shm') and os.access('/dev/shm', os.W_OK) else tempfile.gettempdir()


def scratch_root() -> Path:
    # every scratch directory of one check run (main process and its workers) carries the main pid,
    # so that Check.finish() can remove whatever the workers left behind
    main = os.environ.setdefault('VERIF_MAINPID', str(os.getpid()))
    return Path(tempfile.mkdtemp(prefix=f'rv-{main}-', dir=_scratch_base()))


def cleanup_scratch():
    main = os.environ.get('VERIF_MAINPID')
    if main and main == str(os.getpid()):
        import glob
        for d in glob.glob(os.path.join(_scratch_base(), f'rv-{main}-*')):
            shutil.rmtree(d, ignore_errors=True)


class Scratch:
    def __init__(self):
        self.path = scratch_root()
        self._n = 0

    def sub(self, name=None) -> Path:
        self._n += 1
        p = self.path / (name or f'd{self._n}')
        p.mkdir(parents=True, exist_ok=True)
        return p

    def close(self):
        shutil.rmtree(self.path, ignore_errors=True)

    def __enter__(self):
        return self

    def __exit__(self, *a):
        self.close()


# ---------------------------------------------------------------- findings / violations
class Findings:
    """known_findings.json: a list of entries
    {id, property, status: open|fixed, what, match: {key: value|[values]}}.
    A violation signature (a flat dict) matches an entry when every key of
    `match` is present in the signature with an equal value (or a value in the
    list). Never written at run time."""

    def __init__(self, pid):
        self.pid = pid
        path = VERIF / 'known_findings.json'
        data = json.loads(path.read_text()) if path.exists() else {'findings': []}
        self.entries = [e for e in data['findings'] if e['property'] == pid and e['status'] == 'open']
        self.hit = {}

    def match(self, sig: dict):
        for e in self.entries:
            ok = True
            for k, v in e['match'].items():
                if k not in sig:
                    ok = False
                    break
                sv = sig[k]
                if isinstance(v, list):
                    if sv not in v:
                        ok = False
                        break
                elif sv != v:
                    ok = False
                    break
            if ok:
                self.hit[e['id']] = self.hit.get(e['id'], 0) + 1
                return e
        return None


def jsonable(x):
    if isinstance(x, (bytes, bytearray, memoryview)):
        return {'!hex': bytes(x).hex()}
    if isinstance(x, dict):
        return {str(k): jsonable(v) for k, v in x.items()}
    if isinstance(x, (list, tuple, set, frozenset)):
        seq = list(x)
        if isinstance(x, (set, frozenset)):
            seq = sorted(seq, key=repr)
        return [jsonable(v) for v in seq]
    if isinstance(x, Path):
        return str(x)
    if isinstance(x, (str, int, float, bool)) or x is None:
        return x
    return repr(x)


class Check:
    """Accumulates coverage, violations and known-finding hits for one run of
    one property and writes the evidence file at the end."""

    def __init__(self, pid, level, title=''):
        self.unexercised_whats = set()
        self.pid, self.level, self.title = pid, level, title
        self.t0 = time.time()
        self.findings = Findings(pid)
        self.violations = []  # (sig, replay)
        self.known_hits = {}
        self.coverage = {}
        self.assumptions = []
        self.samples = []
        self.notes = []
        self.harness_errors = []

    # -- violations
    def violation(self, sig: dict, replay: dict):
        """Record one violating case. `sig` identifies what fails (used for
        known-finding matching); `replay` is everything needed to re-run it."""
        if sig.get('what') in self.unexercised_whats:
            # the scenario could not be run to the point where the property is observable (a command failed that
            # the property says nothing about): that is not a violation of THIS property, and not a pass either
            self.harness_error(f"could not exercise the property ({sig.get('what')}): " + (repr(sig) + ' ' + repr(replay))[:400])
            return False
        if 'no controlled stand-in' in repr(sig) + repr(replay):
            # the code under test uses a primitive the scheduler cannot control: nothing can be concluded
            self.harness_error('unsupported concurrency primitive: ' + (repr(sig) + repr(replay))[:300])
            return False
        e = self.findings.match(sig)
        if e is not None:
            self.known_hits.setdefault(e['id'], {'entry': e, 'count': 0, 'first': jsonable(replay)})
            self.known_hits[e['id']]['count'] += 1
            return False
        self.violations.append((jsonable(sig), jsonable(replay)))
        return True

    def harness_error(self, msg):
        self.harness_errors.append(msg)

    def sample(self, s, limit=6):
        if len(self.samples) < limit:
            self.samples.append(jsonable(s))

    # -- finish
    def finish(self, *, exhaustive=True) -> int:
        cleanup_scratch()
        wall = time.time() - self.t0
        cov = dict(self.coverage)
        cov.setdefault('samples', self.samples or [{'note': 'no sample recorded'}])
        cov['exhaustive'] = bool(exhaustive)
        cov['known_findings_hit'] = {k: v['count'] for k, v in self.known_hits.items()}
        if self.notes:
            cov['notes'] = self.notes
        ev = {
            'property_id': self.pid,
            'tier': tier(),
            'seed': seed(),
            'level': self.level,
            'coverage': cov,
            'assumptions': self.assumptions,
            'wall_s': round(wall, 3),
            'violations': len(self.violations),
        }
        evdir = Path(os.environ.get('VERIF_EVIDENCE_DIR') or (VERIF / 'evidence'))
        evdir.mkdir(exist_ok=True)
        evpath = evdir / f'{self.pid}.json'
        evpath.write_text(json.dumps(ev, indent=1, sort_keys=True) + '\n')
        ok_schema = validate_evidence(evpath)

        for k, v in self.known_hits.items():
            print(f"KNOWN-FINDING: property={self.pid} {v['entry']['what']} [{k}; {v['count']} case(s)]")
        rc = 0
        if self.violations:
            rdir = VERIF / 'replays' / self.pid
            rdir.mkdir(parents=True, exist_ok=True)
            seen = set()
            for sig, replay in self.violations:
                key = json.dumps(sig, sort_keys=True)
                if key in seen:
                    continue
                seen.add(key)
                if len(seen) > int(os.environ.get("VERIF_MAX_REPORT", "40")):
                    break
                digest = hashlib.sha256(json.dumps([sig, replay], sort_keys=True).encode()).hexdigest()[:16]
                path = rdir / f'{digest}.json'
                path.write_text(json.dumps({'property': self.pid, 'signature': sig, 'replay': replay}, indent=1) + '\n')
                print(f'VIOLATION property={self.pid} replay={path}')
                print('   signature: ' + key[:600])
            rc = 1
        if self.harness_errors:
            for m in self.harness_errors[:10]:
                print(f'HARNESS-ERROR property={self.pid} {m}', file=sys.stderr)
            if rc == 0:
                rc = 2
        if not ok_schema and rc == 0:
            rc = 2
        summary = {k: v for k, v in cov.items() if isinstance(v, (int, float, bool))}
        print(f'[{self.pid}] tier={tier()} seed={seed()} wall={wall:.1f}s violations={len(self.violations)} '
              f'known={len(self.known_hits)} coverage={json.dumps(summary, sort_keys=True)}')
        return rc


def validate_evidence(path) -> bool:
    code = (
        'import json,sys,jsonschema;'
        's=json.load(open(sys.argv[1]));d=json.load(open(sys.argv[2]));'
        'jsonschema.Draft202012Validator(s).validate(d)'
    )
    if not SCHEMA.exists() or shutil.which('python3-vt') is None:
        return True
    r = subprocess.run(['python3-vt', '-c', code, str(SCHEMA), str(path)], capture_output=True, text=True)
    if r.returncode != 0:
        print('evidence does not validate: ' + r.stderr[-800:], file=sys.stderr)
        return False
    return True


# ---------------------------------------------------------------- parallel map
_WORK = {}


def _call(args):
    fname, item = args
    try:
        return ('ok', _WORK[fname](item))
    except BaseException:
        return ('err', traceback.format_exc())


def pmap(func, items, procs=None, chunksize=1, ordered=True, force=False):
    """Map a top-level function over items in forked worker processes (forked
    before any scheduler thread exists in the parent). Yields results."""
    items = list(items)
    procs = min(procs or NPROC, max(1, len(items)))
    _WORK[func.__name__] = func
    if (procs <= 1 and not force) or os.environ.get('VERIF_SERIAL'):
        for it in items:
            yield _unwrap(_call((func.__name__, it)))
        return
    ctx = multiprocessing.get_context('fork')
    with ctx.Pool(procs) as pool:
        it = pool.imap if ordered else pool.imap_unordered
        for r in it(_call, [(func.__name__, x) for x in items], chunksize):
            yield _unwrap(r)


class WorkerError(Exception):
    pass


def _unwrap(r):
    if r[0] == 'err':
        raise WorkerError(r[1])
    return r[1]


def shuffled(items, salt=''):
    """Deterministic permutation by VERIF_SEED (visiting order only)."""
    items = list(items)
    random.Random(f'{seed()}:{salt}').shuffle(items)
    return items


def h(obj) -> str:
    return hashlib.sha256(json.dumps(jsonable(obj), sort_keys=True).encode()).hexdigest()[:16]


def run_main(main):
    """Top-level wrapper: an unexpected exception inside the harness is a harness error (exit 2,
    no VIOLATION line), never a verdict."""
    try:
        return main()
    except SystemExit:
        raise
    except BaseException:
        traceback.print_exc()
        print('HARNESS-ERROR unexpected exception in the check itself (see traceback); no verdict', file=sys.stderr)
        cleanup_scratch()
        return 2
