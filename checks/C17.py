"""C17 - accepted settings always yield a usable repository and working keys.

E3: per settings section every primitive name (right kind, wrong kind, unknown)
x every parameter over valid values, both neighbours of every limit, 0,
negative, float, numeric string, bool, unknown key; all single deviations from
the default and all pairs of deviations in different sections. Oracle: if init
returns, a FRESH process unlocks with the emitted key, backs up and restores a
multi-chunk tree identically; if it raises, nothing was stored. Same for
add-key and its key (chains of add-key are C06's key graphs)."""
import copy
import itertools
import shutil
import sys
from pathlib import Path

sys.path.insert(0, str(Path(__file__).resolve().parent.parent))
from mc import common

R = common.bootstrap()
from mc import hist as H, world as W  # noqa: E402

PID = 'C17'
# the built-in scrypt cost (n=2**20, 3.5 s per derivation) is lowered for the cases that leave the KDF at its default
import replicat.utils.adapters as _A  # noqa: E402
_A.scrypt.__init__.__kwdefaults__['n'] = 1 << 4
DEFAULT = {'hashing': {'name': 'blake2b', 'length': 32}, 'chunking': {'min_length': 4, 'max_length': 8},
           'encryption': {'cipher': {'name': 'aes_gcm', 'key_bits': 128}, 'kdf': {'name': 'scrypt', 'n': 4, 'r': 1}}}
WEIRD = [0, -1, 1.5, '8', True, None]


def variants():
    """(section, label, function(settings) -> None mutating a deep copy)."""
    out = []

    def setter(path, value):
        def f(s):
            d = s
            for k in path[:-1]:
                d = d.setdefault(k, {})
            d[path[-1]] = value
        return f

    def replace(path, value):
        def f(s):
            d = s
            for k in path[:-1]:
                d = d[k]
            d[path[-1]] = copy.deepcopy(value)
        return f

    # hashing
    for name, params in (('blake2b', [('length', v) for v in (1, 16, 20, 64, 65, 128) + tuple(WEIRD)]),
                         ('sha2', [('bits', v) for v in (224, 256, 384, 512, 255, 513) + tuple(WEIRD)]),
                         ('sha3', [('bits', v) for v in (224, 256, 384, 512, 255, 513) + tuple(WEIRD)])):
        out.append(('hashing', f'{name}()', replace(['hashing'], {'name': name})))
        for k, v in params:
            out.append(('hashing', f'{name}({k}={v!r})', replace(['hashing'], {'name': name, k: v})))
        out.append(('hashing', f'{name}(unknown=1)', replace(['hashing'], {'name': name, 'unknown': 1})))
    for name in ('gclmulchunker', 'aes_gcm', 'chacha20_poly1305', 'scrypt', 'md5', '', 'BLAKE2B'):
        out.append(('hashing', f'wrong-or-unknown:{name}', replace(['hashing'], {'name': name})))
    out.append(('hashing', 'scrypt(length=32)', replace(['hashing'], {'name': 'scrypt', 'length': 32})))
    # chunking
    for mn, mx in ((4, 8), (8, 8), (1, 4), (4, 64), (5, 10), (1, 1), (1, 3), (5, 7), (9, 8), (0, 8), (-4, 8), (4, 0), (0, 0),
                   (4.0, 8), (4, 8.0), ('4', '8'), (True, 8), (None, 8), (4, None), (2**40, 2**41)):
        out.append(('chunking', f'gclmulchunker({mn!r},{mx!r})', replace(['chunking'], {'min_length': mn, 'max_length': mx})))
    out.append(('chunking', 'gclmulchunker(min only 16)', replace(['chunking'], {'min_length': 16})))
    out.append(('chunking', 'gclmulchunker(unknown=1)', replace(['chunking'], {'min_length': 4, 'max_length': 8, 'unknown': 1})))
    for name in ('blake2b', 'sha2', 'aes_gcm', 'nochunker'):
        out.append(('chunking', f'wrong-or-unknown:{name}', replace(['chunking'], {'name': name})))
    # cipher
    for kb in (128, 192, 256, 64, 257, 129) + tuple(WEIRD):
        out.append(('cipher', f'aes_gcm(key_bits={kb!r})', replace(['encryption', 'cipher'], {'name': 'aes_gcm', 'key_bits': kb})))
    for nb in (96, 64, 128, 100, 8, 1024) + tuple(WEIRD):
        out.append(('cipher', f'aes_gcm(nonce_bits={nb!r})',
                    replace(['encryption', 'cipher'], {'name': 'aes_gcm', 'key_bits': 128, 'nonce_bits': nb})))
    out.append(('cipher', 'chacha20_poly1305()', replace(['encryption', 'cipher'], {'name': 'chacha20_poly1305'})))
    out.append(('cipher', 'chacha20_poly1305(key_bits=128)', replace(['encryption', 'cipher'], {'name': 'chacha20_poly1305', 'key_bits': 128})))
    for name in ('blake2b', 'scrypt', 'gclmulchunker', 'rot13'):
        out.append(('cipher', f'wrong-or-unknown:{name}', replace(['encryption', 'cipher'], {'name': name})))
    # kdf
    for n in (2, 4, 16, 3, 1) + tuple(WEIRD):
        out.append(('kdf', f'scrypt(n={n!r})', replace(['encryption', 'kdf'], {'name': 'scrypt', 'n': n, 'r': 1})))
    for r_ in (1, 8) + tuple(WEIRD):
        out.append(('kdf', f'scrypt(r={r_!r})', replace(['encryption', 'kdf'], {'name': 'scrypt', 'n': 4, 'r': r_})))
    for p_ in (1, 2) + tuple(WEIRD):
        out.append(('kdf', f'scrypt(p={p_!r})', replace(['encryption', 'kdf'], {'name': 'scrypt', 'n': 4, 'r': 1, 'p': p_})))
    out.append(('kdf', 'scrypt(length=16)', replace(['encryption', 'kdf'], {'name': 'scrypt', 'n': 4, 'r': 1, 'length': 16})))
    out.append(('kdf', 'blake2b()', replace(['encryption', 'kdf'], {'name': 'blake2b'})))
    out.append(('kdf', 'blake2b(n=4)', replace(['encryption', 'kdf'], {'name': 'blake2b', 'n': 4})))
    for name in ('sha2', 'aes_gcm', 'gclmulchunker', 'pbkdf2'):
        out.append(('kdf', f'wrong-or-unknown:{name}', replace(['encryption', 'kdf'], {'name': name})))
    # structure
    out.append(('structure', 'encryption=None', replace(['encryption'], None)))
    out.append(('structure', 'encryption={}', replace(['encryption'], {})))
    out.append(('structure', 'encryption.unknown', setter(['encryption', 'unknown'], {})))
    out.append(('structure', 'top-level unknown', setter(['unknown'], {})))
    out.append(('structure', 'hashing is a string', replace(['hashing'], 'blake2b')))
    out.append(('structure', 'chunking is a list', replace(['chunking'], [4, 8])))
    out.append(('structure', 'encryption.shared_kdf', setter(['encryption', 'shared_kdf'], {'name': 'blake2b'})))
    out.append(('structure', 'encryption.mac', setter(['encryption', 'mac'], {'name': 'blake2b'})))
    return out


VARIANTS = variants()
TREE = {'f1': bytes(range(100)), 'sub/f2': b'tail-' * 9, 'e': b''}


def try_settings(settings, password=b'pw', long_password=False, prior=None):
    """-> (accepted: bool, problem: None | (stage, err)).
    prior: settings of ANOTHER repository that the same user creates and uses, with the same cache directory, between
    the init of this one and its first use by a fresh process
    (the cache directory is per user, not per repository)."""
    sc = H.worker_scratch()
    root = sc.sub()
    W.write_tree(root / 'src', TREE)
    st = W.Store()
    W.set_random('c17')
    W.set_clock()
    res = {}
    cache = None
    if prior is not None:
        cache = root / 'cache'
        st0 = W.Store()

        async def other():
            r0 = W.make_repo(st0, N=2, cache=cache)
            with W.captured():
                k0 = await r0.init(password=b'other-pw', settings=copy.deepcopy(prior))
                await r0.close()
            u0 = W.User('o', b'other-pw', r0.serialize(k0.key)) if k0.key is not None else None
            r0 = await W.a_open(st0, u0, N=2, cache=cache)
            with W.captured():
                await r0.snapshot(paths=[root / 'src'])
                await r0.list_snapshots()
                await r0.close()

    def _mk(store, N=2):
        return W.make_repo(store, N=N, cache=cache)

    async def do_init():
        repo = _mk(st)
        with W.captured():
            r = await repo.init(password=password, settings=copy.deepcopy(settings))
            await repo.close()
        return repo.serialize(r.key) if r.key is not None else None

    try:
        key = W.run(do_init)
    except BaseException as e:
        if not isinstance(e, Exception):
            raise
        shutil.rmtree(root, ignore_errors=True)
        stored = [m for m in st.mutations]
        if stored:
            return False, ('rejected-but-stored', f'{type(e).__name__}: {str(e)[:100]}; stored {[m[1] for m in stored]}')
        return False, None
    user = W.User('u', password, key) if key else None
    target = root / 'out'
    if prior is not None:
        # ... and in between the user creates and uses another repository with the same cache directory
        try:
            W.run(other)
        except Exception as e:
            shutil.rmtree(root, ignore_errors=True)
            return True, ('accepted-but-unusable', f'other repository with the same cache directory: {type(e).__name__}: {str(e)[:100]}')
    stage = 'unlock'
    try:
        async def use():
            nonlocal stage
            repo = await W.a_open(st, user, N=2, cache=cache)
            stage = 'snapshot'
            with W.captured():
                await repo.snapshot(paths=[root / 'src'])
                await repo.close()
            stage = 'unlock-2'
            repo = await W.a_open(st, user, N=2, cache=cache)
            stage = 'restore'
            with W.captured():
                await repo.restore(path=target)
                await repo.close()

        W.run(use)
        got = {p: v[0] for p, v in W.read_tree(target).items()}
        want = {W.restore_path(target, str(root / 'src' / rel)): d for rel, d in TREE.items()}
        if got != want:
            return True, ('accepted-but-wrong-content', f'{len(got)} files restored, {sum(1 for k in want if got.get(k) == want[k])} correct')
        # the key works with its password only
        if key is not None:
            wrongs = [password + b'x', password[:-1], password.swapcase()]
            if len(password) > 64:
                wrongs.append(password[:64] + b'#' * (len(password) - 64))
            for wp in wrongs:
                async def wrong():
                    repo = _mk(st)
                    with W.captured():
                        await repo.unlock(password=wp, key=key)
                try:
                    W.run(wrong)
                    return True, ('accepted-but-wrong-password-unlocks', repr(wp)[:40])
                except Exception:
                    pass
        return True, None
    except BaseException as e:
        if not isinstance(e, Exception):
            raise
        return True, ('accepted-but-unusable', f'{stage}: {type(e).__name__}: {str(e)[:100]}')
    finally:
        shutil.rmtree(root, ignore_errors=True)


def apply_variants(idxs):
    s = copy.deepcopy(DEFAULT)
    for i in idxs:
        try:
            VARIANTS[i][2](s)
        except (KeyError, TypeError, AttributeError):
            return None   # the second deviation addresses a section the first one removed
    return s


LONG_PW = b'a-very-long-passphrase-' * 4   # 92 bytes: longer than a BLAKE2b key


PRIORS = {'prior-default': DEFAULT, 'prior-unencrypted': {'encryption': None}}


def run_case(idxs):
    long_pw = bool(idxs) and idxs[-1] == 'long'
    prior = None
    if idxs and isinstance(idxs[-1], str) and idxs[-1].startswith('prior-'):
        prior = idxs[-1]
    full = idxs
    if long_pw or prior:
        idxs = idxs[:-1]
    s = apply_variants(idxs)
    if s is None:
        return full, None, None
    accepted, problem = try_settings(s, password=LONG_PW if long_pw else b'pw', prior=PRIORS[prior] if prior else None)
    if long_pw and problem:
        problem = (problem[0] + '(long password)', problem[1])
    return full, accepted, problem


# ---- add-key settings
AK_VARIANTS = [v for v in VARIANTS if v[0] == 'kdf'] + [
    ('structure', 'add-key: cipher given', lambda s: s['encryption'].__setitem__('cipher', {'name': 'aes_gcm'})),
    ('structure', 'add-key: top-level unknown', lambda s: s.__setitem__('unknown', {})),
    ('structure', 'add-key: encryption={}', lambda s: s.__setitem__('encryption', {})),
]


def run_addkey(i):
    sec, label, fn = AK_VARIANTS[i]
    out = []
    for shared in (False, True):
        st = W.Store()
        W.set_random('c17-ak')
        key0 = W.run(W.a_init, st, copy.deepcopy(DEFAULT), b'pw0')
        s = {'encryption': {'kdf': {'name': 'scrypt', 'n': 4, 'r': 1}}}
        try:
            fn(s)
        except Exception:
            continue
        before = dict(st.o)
        nm = len(st.mutations)
        try:
            key = W.run(W.a_add_key, st, W.User('o', b'pw0', key0), b'pw-new', shared, s)
        except Exception as e:
            if st.o != before or len(st.mutations) != nm:
                out.append((label, shared, ('rejected-but-stored', repr(e)[:100])))
            continue
        # the new key must unlock with its password (and not with the owner's) and be usable
        sc = H.worker_scratch()
        root = sc.sub()
        W.write_tree(root / 'src', TREE)
        target = root / 'out'
        try:
            async def use():
                repo = await W.a_open(st, W.User('n', b'pw-new', key), N=2)
                with W.captured():
                    await repo.snapshot(paths=[root / 'src'])
                    await repo.restore(path=target)
                    await repo.close()
            W.run(use)
            got = {p: v[0] for p, v in W.read_tree(target).items()}
            want = {W.restore_path(target, str(root / 'src' / rel)): d for rel, d in TREE.items()}
            if got != want:
                out.append((label, shared, ('accepted-but-wrong-content', '')))
            for wrongpw in (b'pw0', b'pw-new2', b''):
                async def wrong():
                    repo = W.make_repo(st)
                    with W.captured():
                        await repo.unlock(password=wrongpw, key=key)
                try:
                    W.run(wrong)
                    out.append((label, shared, ('accepted-but-wrong-password-unlocks', repr(wrongpw))))
                except Exception:
                    pass
        except Exception as e:
            out.append((label, shared, ('accepted-but-unusable', f'{type(e).__name__}: {str(e)[:100]}')))
        finally:
            shutil.rmtree(root, ignore_errors=True)
    return i, out


def keyfile_case(args):
    """The key written to a file must be exactly the key, whatever was at that path before."""
    cmd, pre = args
    sc = H.worker_scratch()
    root = sc.sub()
    path = root / 'sub' / 'the.key'
    if pre != 'unwritable':
        path.parent.mkdir(parents=True)     # 'unwritable': the directory of the key output file does not exist
    if pre == 'longer':
        path.write_bytes(b'{"old": "' + b'k' * 6000 + b'"}')
    elif pre == 'shorter':
        path.write_bytes(b'{}')
    st = W.Store()
    W.set_random('c17-kf')
    vs = []
    sig0 = {'section': 'key-file', 'deviation': f'{cmd} over {pre} file'}

    async def go():
        repo = W.make_repo(st, N=2)
        with W.captured():
            if cmd == 'init':
                r = await repo.init(password=b'pw0', settings=copy.deepcopy(DEFAULT), key_output_path=path)
                key, pw = r.key, b'pw0'
            else:
                r0 = await repo.init(password=b'pw0', settings=copy.deepcopy(DEFAULT))
                r = await repo.add_key(password=b'pw-new', shared=(cmd == 'add-key-shared'), key_output_path=path,
                                       settings={'encryption': {'kdf': {'name': 'scrypt', 'n': 4, 'r': 1}}})
                key, pw = r.new_key, b'pw-new'
            await repo.close()
        return repo.serialize(key), pw

    try:
        want, pw = W.run(go)
    except Exception as e:
        shutil.rmtree(root, ignore_errors=True)
        if pre == 'unwritable':
            return []      # refusing is fine; a command that goes on must hand out a key that works (checked below)
        return [(dict(sig0, outcome='command-failed'), {'deviations': [sig0['deviation']], 'detail': repr(e)[:200]})]
    got = path.read_bytes() if path.exists() else None
    if pre == 'unwritable' and got is None:
        got = want         # the key went somewhere else (stdout / the result): it must still be a working key
    if got != want:
        vs.append((dict(sig0, outcome='key-file-is-not-the-key'),
                   {'deviations': [sig0['deviation']], 'detail': f'file has {None if got is None else len(got)} bytes, key has {len(want)}'}))
    else:
        async def use():
            repo = W.make_repo(st, N=2)
            with W.captured():
                await repo.unlock(password=pw, key=got)
                await repo.close()
        try:
            W.run(use)
        except Exception as e:
            vs.append((dict(sig0, outcome='accepted-but-unusable'), {'deviations': [sig0['deviation']], 'detail': repr(e)[:200]}))
    shutil.rmtree(root, ignore_errors=True)
    return vs


def replay(case):
    labels = case['deviations']
    if labels and ' over ' in labels[0] and labels[0].split(' over ')[0] in ('init', 'add-key-shared', 'add-key-independent'):
        cmd, pre = labels[0].split(' over ')
        return {'violations': [v[0] for v in keyfile_case((cmd, pre.replace(' file', '')))]}
    idxs = tuple(i for i, v in enumerate(VARIANTS) if f'{v[0]}:{v[1]}' in labels)
    _, accepted, problem = run_case(idxs)
    return {'violations': [problem[0]] if problem else [], 'accepted': accepted, 'problem': problem}


def main():
    t = common.tier()
    chk = common.Check(PID, 'exploration')
    singles = [(i,) for i in range(len(VARIANTS))] + [(i, 'long') for i, v in enumerate(VARIANTS) if v[0] in ('kdf', 'cipher')]
    # the user's cache directory has served another repository with other settings before
    singles += [(i, pr) for i, v in enumerate(VARIANTS) if v[0] in ('hashing', 'cipher', 'chunking') for pr in PRIORS][::(3 if t == 'quick' else 1)]
    failing_single = {}
    accepted_single = {}
    n = acc = rej = 0
    for idxs, accepted, problem in common.pmap(run_case, singles, ordered=False, chunksize=2):
        if accepted is None:
            continue
        n += 1
        acc += bool(accepted)
        rej += not accepted
        if len(idxs) == 1:
            accepted_single[idxs[0]] = bool(accepted)
        if problem:
            sec, label, _ = VARIANTS[idxs[0]]
            if len(idxs) == 1:
                failing_single[idxs[0]] = problem[0]
            sig = {'section': sec, 'deviation': label, 'outcome': problem[0]}
            if isinstance(idxs[-1], str) and idxs[-1].startswith('prior-'):
                sig['cache_directory'] = 'shared-with-another-repository'
            chk.violation(sig, {'deviations': [f'{sec}:{label}'] + [x for x in idxs[1:] if isinstance(x, str)], 'detail': problem[1],
                                'settings': apply_variants([x for x in idxs if not isinstance(x, str)])})
    # pairs of deviations in different sections
    pairs = []
    for i, j in itertools.combinations(range(len(VARIANTS)), 2):
        if VARIANTS[i][0] == VARIANTS[j][0]:
            continue
        pairs.append((i, j))
    for idxs, accepted, problem in common.pmap(run_case, common.shuffled(pairs, 'p'), ordered=False, chunksize=8):
        if accepted is None:
            continue
        n += 1
        acc += bool(accepted)
        rej += not accepted
        if problem:
            causes = [k for k in idxs if failing_single.get(k) == problem[0]]
            if causes:
                sec, label, _ = VARIANTS[causes[0]]
                chk.violation({'section': sec, 'deviation': label, 'outcome': problem[0]},
                              {'deviations': [f'{VARIANTS[k][0]}:{VARIANTS[k][1]}' for k in idxs], 'detail': problem[1]})
            else:
                chk.violation({'section': 'pair', 'deviation': ' + '.join(f'{VARIANTS[k][0]}:{VARIANTS[k][1]}' for k in idxs),
                               'outcome': problem[0]},
                              {'deviations': [f'{VARIANTS[k][0]}:{VARIANTS[k][1]}' for k in idxs], 'detail': problem[1]})
    # triples of individually accepted deviations from three different sections (thorough)
    if t == 'thorough':
        ok_single = [i for i in range(len(VARIANTS)) if (i,) and i not in failing_single and accepted_single.get(i)]
        triples = [c for c in itertools.combinations(ok_single, 3) if len({VARIANTS[k][0] for k in c}) == 3]
        for idxs, accepted, problem in common.pmap(run_case, common.shuffled(triples, 't3'), ordered=False, chunksize=16):
            if accepted is None:
                continue
            n += 1
            acc += bool(accepted)
            rej += not accepted
            if problem:
                chk.violation({'section': 'triple', 'deviation': ' + '.join(f'{VARIANTS[k][0]}:{VARIANTS[k][1]}' for k in idxs),
                               'outcome': problem[0]},
                              {'deviations': [f'{VARIANTS[k][0]}:{VARIANTS[k][1]}' for k in idxs], 'detail': problem[1]})
    nak = 0
    for i, out in common.pmap(run_addkey, list(range(len(AK_VARIANTS))), ordered=False):
        nak += 2
        for label, shared, problem in out:
            chk.violation({'section': 'add-key', 'deviation': label, 'outcome': problem[0]},
                          {'deviations': ['add-key:' + label], 'shared': shared, 'detail': problem[1]})
    kcases = [(c, pre) for c in ('init', 'add-key-shared', 'add-key-independent') for pre in ('absent', 'shorter', 'longer', 'unwritable')]
    for vs in common.pmap(keyfile_case, kcases, ordered=False):
        nak += 1
        for sig, d in vs:
            chk.violation(sig, d)
    chk.sample({'deviations': ['hashing:blake2b(length=65)'], 'then': 'init; fresh unlock; snapshot; restore'})
    chk.sample({'deviations': ['chunking:gclmulchunker(5,10)', 'cipher:aes_gcm(key_bits=192)']})
    chk.coverage.update({
        'evaluations': n + nak, 'distinct_nontrivial': n + nak,
        'rule': 'every single deviation from the default settings and every pair of deviations in different sections (quick: '
                'every 5th pair); add-key with every KDF variant, shared and independent; every case distinct by construction',
        'variants': len(VARIANTS), 'accepted': acc, 'rejected': rej, 'add_key_cases': nak,
    })
    chk.assumptions += ['usable = a fresh Repository unlocks, snapshots a 3-file multi-chunk tree and restores it identically']
    return chk.finish()


if __name__ == '__main__':
    sys.exit(common.run_main(main))
