"""C13 - all backends behave as the same simple object store.

E2 against a dict model. Adapters: the real Local over a scratch directory for
six spellings of the repository path; the real S3Compatible and B2 over fake
services whose listing page size is 2. (A) every subset of 7 object names as a
state; in every state every observer (exists / download / download_stream for
every name, list for every prefix) and every mutating operation (upload,
upload_stream with sizes around the stream chunk, delete) on every name is
compared with the model. (B) every sequence of <= 3/4 mutating operations on 3
names (overwrite, delete twice, delete-then-upload ...) with all observers at
the end."""
import io
import itertools
import os
import shutil
import sys
from pathlib import Path

sys.path.insert(0, str(Path(__file__).resolve().parent.parent))
from mc import common

R = common.bootstrap()
from mc import hist as H, world as W  # noqa: E402
from mc.fakes import services as FS  # noqa: E402
import backoff._sync  # noqa: E402
import replicat.backends.local as L  # noqa: E402
import replicat.backends.s3c as S3C  # noqa: E402
import replicat.backends.b2 as B2M  # noqa: E402
import types  # noqa: E402

# retries of the local adapter sleep in real time: make that free
backoff._sync.time = types.SimpleNamespace(sleep=lambda s: None)

PID = 'C13'
NAMES = ['data/ab/c-d', 'data/ab/c-e', 'data/q', 'snapshots/x', 'we ird/ü', 'p%41/q?r#s', 'x.tmp', 'data/abc/f']
# incl. prefixes that are exactly the name of a directory-like component with a sibling that continues the string
# ('data/ab' vs 'data/abc/f', 'data' vs nothing, 'we ird')
PREFIXES = ['', 'data/', 'data/ab/c', 'da', 'we i', 'nomatch', 'p%', 'x.', 'snapshots/x', 'data/ab/c-d', 'data/ab', 'data', 'we ird',
            'data/abc']
CHUNK = 8
SPELLINGS = ['absolute', 'relative', 'dot-slash', 'trailing-slash', 'dotdot', 'dot']


def payload(name, variant=0):
    base = (name.encode('utf-8') + b'#') * 2
    sizes = {0: len(base), 1: CHUNK - 1, 2: CHUNK, 3: CHUNK + 1, 4: 0, 5: 3 * CHUNK}
    n = sizes[variant]
    return (base * 4)[:n] if variant else base + b'v0'


class Ctx:
    """One adapter instance over a fresh store."""

    def __init__(self, kind, spelling=None):
        self.kind, self.spelling = kind, spelling
        self.cwd = None
        if kind == 'local':
            sc = H.worker_scratch()
            self.root = sc.sub()
            (self.root / 'x').mkdir()
            self.base = self.root / 'x'
            self.cwd = os.getcwd()
            os.chdir(self.root)
            conn = {'absolute': str(self.base), 'relative': 'x', 'dot-slash': './x', 'trailing-slash': str(self.base) + '/',
                    'dotdot': 'x/../x', 'dot': '.'}[spelling]
            if spelling == 'dot':
                os.chdir(self.base)
            self.be = L.Local(conn)
            self.fake = None
        elif kind == 's3c':
            self.be = S3C.S3Compatible('bucket', key_id='k', access_key='s', region='r', host='h.test', scheme='https')
            self.fake = FS.install(self.be, FS.FakeS3('bucket', page=2))
            self.fake.body_chunk = 5
        else:
            self.be = B2M.B2('bucket', key_id='k', application_key='a')
            self.fake = FS.install(self.be, FS.FakeB2('bucket', page=2))
            self.fake.body_chunk = 5

    def truth(self):
        """What the service / directory really holds."""
        if self.fake is not None:
            return dict(self.fake.o)
        out = {}
        for d, _dirs, files in os.walk(self.base):
            for f in files:
                p = Path(d) / f
                out[str(p.relative_to(self.base))] = p.read_bytes()
        return out

    def inject(self, state):
        if self.fake is not None:
            self.fake.o = dict(state)
            return True
        return False

    def close(self):
        if self.cwd is not None:
            os.chdir(self.cwd)
            shutil.rmtree(self.root, ignore_errors=True)


async def call(be, op, *a):
    fake = getattr(getattr(be, '_client', None), '_transport', None)
    if isinstance(fake, FS.BaseFake):
        fake.reset_budget(120)
    fn = getattr(be, op)
    import inspect
    if inspect.isasyncgenfunction(fn):
        return [x async for x in fn(*a)]
    r = fn(*a)
    if inspect.isawaitable(r):
        r = await r
    if op == 'list_files':
        r = list(r)
    return r


async def observers(ctx, model, sig0, detail0, vs):
    be = ctx.be

    def bad(what, **kw):
        vs.append((dict(sig0, what=what, **{k: kw[k] for k in ('name_class',) if k in kw}), dict(detail0, **kw)))

    for n in NAMES:
        nc = name_class(n)
        try:
            ex = await call(be, 'exists', n)
            if ex != (n in model):
                bad('exists-differs', name=n, got=ex, name_class=nc)
        except Exception as e:
            bad('exists-raised', name=n, err=repr(e)[:120], name_class=nc)
        for op in ('download', 'download_stream'):
            try:
                if op == 'download':
                    got = await call(be, 'download', n)
                else:
                    s = io.BytesIO(b'stale-content-longer-than-anything-stored-here' * 2)
                    s.seek(0)
                    await call(be, 'download_stream', n, s, CHUNK)
                    got = s.getvalue()
                if n not in model:
                    bad(op + '-of-missing-object-returned', name=n, got=got, name_class=nc)
                elif got != model[n]:
                    bad(op + '-differs', name=n, got=got, want=model[n], name_class=nc)
            except Exception as e:
                if n in model:
                    bad(op + '-raised', name=n, err=repr(e)[:120], name_class=nc)
                elif isinstance(e, FS.Unbounded):
                    bad('missing-object-never-ends-in-an-error', name=n, op=op, name_class='any')
    for p in PREFIXES:
        try:
            got = await call(be, 'list_files', p)
        except Exception as e:
            bad('list-raised', prefix=p, err=repr(e)[:120])
            continue
        want = sorted(n for n in model if n.startswith(p))
        if sorted(got) != want:
            extra = sorted(set(got) - set(want))
            missing = sorted(set(want) - set(got))
            cls = 'tmp-suffix' if missing and all(m.endswith('.tmp') for m in missing) and not extra else \
                ('duplicates' if len(got) != len(set(got)) else 'other')
            bad('list-differs', prefix=p, got=sorted(got), want=want, name_class=cls)


def name_class(n):
    if n.endswith('.tmp'):
        return 'tmp-suffix'
    if any(c in n for c in '?#%'):
        return 'url-special'
    if ' ' in n or any(ord(c) > 127 for c in n):
        return 'space-or-unicode'
    return 'plain'


MUTATIONS = [('upload', 0), ('upload_stream', 1), ('upload_stream', 2), ('upload_stream', 3), ('upload_stream', 4),
             ('upload_stream', 5), ('upload', 4), ('delete', None)]


async def mutate(ctx, model, op, variant, name):
    if op == 'upload':
        data = payload(name, variant)
        r = await call(ctx.be, 'upload', name, data)
        model[name] = data
    elif op == 'upload_stream':
        data = payload(name, variant)
        r = await call(ctx.be, 'upload_stream', name, io.BytesIO(data), len(data), CHUNK)
        model[name] = data
    else:
        r = await call(ctx.be, 'delete', name)
        model.pop(name, None)
    return r


def subset_case(args):
    kind, spelling, subset = args
    sig0 = {'adapter': kind, 'spelling': spelling if spelling == 'dot' else ('other' if spelling else None), 'part': 'states'}
    vs = []
    n_ops = [0]

    async def go():
        # build the state through the adapter itself
        ctx = Ctx(kind, spelling)
        try:
            model = {}
            for i, nme in enumerate(subset):
                await mutate(ctx, model, 'upload' if i % 2 == 0 else 'upload_stream', 0 if i % 2 == 0 else 5, nme)
            detail0 = {'adapter': kind, 'spelling': spelling, 'state': sorted(model)}
            if ctx.truth() != model:
                vs.append((dict(sig0, what='stored-state-differs-after-uploads'), dict(detail0, truth=sorted(ctx.truth()))))
            await observers(ctx, model, sig0, detail0, vs)
            n_ops[0] += len(NAMES) * 3 + len(PREFIXES)
            state0 = dict(model)
            for ni, nme in enumerate(NAMES):
                # the order of the mutations rotates with the name: a streamed upload is the first thing that happens to
                # some names, a plain upload or a deletion to others
                for op, variant in MUTATIONS[ni % len(MUTATIONS):] + MUTATIONS[:ni % len(MUTATIONS)]:
                    if True:
                        # rebuild the state by undoing the previous mutation through the adapter itself (the history stays
                        # a single-client history: nothing changes behind the adapter's back)
                        cur = ctx.truth()
                        for k in set(cur) - set(state0):
                            await call(ctx.be, 'delete', k)
                        for k, v in state0.items():
                            if cur.get(k) != v:
                                await call(ctx.be, 'upload', k, v)
                    model = dict(state0)
                    d1 = dict(detail0, op=[op, variant, nme])
                    try:
                        r = await mutate(ctx, model, op, variant, nme)
                    except Exception as e:
                        vs.append((dict(sig0, what='mutation-raised', op=op, name_class=name_class(nme)), dict(d1, err=repr(e)[:160])))
                        continue
                    n_ops[0] += 1
                    if r is not None:
                        vs.append((dict(sig0, what='mutation-returned-value', op=op), d1))
                    truth = ctx.truth()
                    if truth != model:
                        vs.append((dict(sig0, what='stored-state-differs', op=op, name_class=name_class(nme)),
                                   dict(d1, extra=sorted(set(truth) - set(model)), missing=sorted(set(model) - set(truth)),
                                        changed=sorted(k for k in set(truth) & set(model) if truth[k] != model[k]))))
                    # the mutated name as seen through the adapter, and the full listing
                    try:
                        ex = await call(ctx.be, 'exists', nme)
                        if ex != (nme in model):
                            vs.append((dict(sig0, what='exists-differs-after-mutation', op=op, name_class=name_class(nme)), d1))
                        got = await call(ctx.be, 'list_files', '')
                        want = sorted(model)
                        if sorted(got) != want and not (set(want) - set(got)) <= {'x.tmp'} or len(got) != len(set(got)):
                            vs.append((dict(sig0, what='list-differs-after-mutation', op=op), dict(d1, got=sorted(got), want=want)))
                    except Exception as e:
                        vs.append((dict(sig0, what='observer-raised-after-mutation', op=op, name_class=name_class(nme)),
                                   dict(d1, err=repr(e)[:160])))
            if hasattr(ctx.be, 'close'):
                r = ctx.be.close()
                if hasattr(r, '__await__'):
                    await r
        finally:
            ctx.close()

    try:
        W.run(go)
    except Exception as e:
        vs.append((dict(sig0, what='harness-run-failed'), {'adapter': kind, 'spelling': spelling, 'state': list(subset), 'err': repr(e)[:300]}))
    return n_ops[0], vs


def sequence_case(args):
    kind, spelling, seq = args
    sig0 = {'adapter': kind, 'spelling': spelling if spelling == 'dot' else ('other' if spelling else None), 'part': 'sequences'}
    vs = []

    async def go():
        ctx = Ctx(kind, spelling)
        try:
            model = {}
            detail0 = {'adapter': kind, 'spelling': spelling, 'sequence': [list(s) for s in seq]}
            for op, variant, nme in seq:
                try:
                    await mutate(ctx, model, op, variant, nme)
                except Exception as e:
                    vs.append((dict(sig0, what='mutation-raised', op=op, name_class=name_class(nme)), dict(detail0, err=repr(e)[:160])))
                    return
                # what the adapter says about that name right after each step
                ex = await call(ctx.be, 'exists', nme)
                if ex != (nme in model):
                    vs.append((dict(sig0, what='exists-differs-after-mutation', op=op, name_class=name_class(nme)), detail0))
            if ctx.truth() != model:
                vs.append((dict(sig0, what='stored-state-differs'), dict(detail0, truth=sorted(ctx.truth()), model=sorted(model))))
            await observers(ctx, model, sig0, detail0, vs)
            if kind == 'local':
                ctx.be.clean()
                if ctx.truth() != model:
                    vs.append((dict(sig0, what='clean-changed-objects'), detail0))
            if hasattr(ctx.be, 'close'):
                r = ctx.be.close()
                if hasattr(r, '__await__'):
                    await r
        finally:
            ctx.close()

    try:
        W.run(go)
    except Exception as e:
        vs.append((dict(sig0, what='harness-run-failed'), {'adapter': kind, 'err': repr(e)[:300]}))
    return len(seq), vs


def replay(case):
    if 'sequence' in case:
        n, vs = sequence_case((case['adapter'], case['spelling'], [tuple(s) for s in case['sequence']]))
    else:
        n, vs = subset_case((case['adapter'], case['spelling'], tuple(case['state'])))
    return {'violations': [v[0] for v in vs][:8]}


def main():
    t = common.tier()
    chk = common.Check(PID, 'model_checking')
    adapters = [('local', s) for s in SPELLINGS] + [('s3c', None), ('b2', None)]
    subsets = []
    for k in range(len(NAMES) + 1):
        subsets += list(itertools.combinations(NAMES, k))
    cases = []
    for kind, sp in adapters:
        for sub in subsets:
            if t == 'quick' and kind == 'local' and sp not in ('absolute', 'dot') and len(sub) not in (0, 1, 3, 7):
                continue
            cases.append((kind, sp, sub))
    nops = 0
    for n, vs in common.pmap(subset_case, common.shuffled(cases, 'a'), ordered=False, chunksize=2):
        nops += n
        for sig, d in vs:
            chk.violation(sig, d)
    names3 = ['data/ab/c-d', 'data/ab/c-e', 'we ird/ü']
    muts = [('upload', 0), ('upload_stream', 3), ('upload_stream', 4), ('delete', None)]
    steps = [(op, v, nme) for nme in names3 for op, v in muts]
    depth = 3 if t == 'quick' else 4
    seqs = []
    for k in range(1, depth + 1):
        seqs += list(itertools.product(steps, repeat=k))
    scases = []
    for kind, sp in adapters:
        if kind == 'local' and sp not in ('absolute', 'dot', 'dotdot') and t == 'quick':
            continue
        for s in seqs:
            scases.append((kind, sp, s))
    for n, vs in common.pmap(sequence_case, common.shuffled(scases, 'b'), ordered=False, chunksize=16):
        nops += n
        for sig, d in vs:
            chk.violation(sig, d)
    chk.sample({'adapter': 'b2', 'state': list(subsets[60]), 'then': 'all observers; every mutation on every name'})
    chk.sample({'adapter': 'local', 'spelling': 'dotdot', 'sequence': [list(s) for s in seqs[200]]})
    chk.coverage.update({
        'states': len(cases), 'transitions': nops, 'traces_validated_against_impl': len(cases) + len(scases),
        'evaluations': nops, 'distinct_nontrivial': len(cases) + len(scases),
        'rule': 'states = all subsets of 8 names per adapter configuration (built through the adapter); in each all observers '
                'and all 8 mutations x 8 names (order rotating with the name, state restored through the adapter) against the dict model and the raw store; plus all sequences of <=3/4 mutations over '
                '3 names with all observers at the end',
        'adapter_configurations': [f'{k}:{s}' for k, s in adapters], 'names': NAMES, 'prefixes': PREFIXES,
        'subset_cases': len(cases), 'sequence_cases': len(scases),
    })
    chk.assumptions += ['the fake S3/B2 services implement the documented wire behaviour (listing pages of 2)',
                        'no name is a directory prefix of another, no . or .. segments']
    H.cleanup_fixed_root()
    return chk.finish()


if __name__ == '__main__':
    sys.exit(common.run_main(main))
