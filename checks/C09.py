"""C09 - snapshot and restore do not depend on thread or I/O scheduling.

E1: every schedule of the real producer / worker / loader / writer threads and
the event loop, and every completion order of pending backend calls, with at
most d deviations from the default schedule. Oracle per execution: result equals
the sequential reference (source bytes), no exception, no hang, in-flight
transfers <= N at every backend entry, all N slots back at quiescence."""
import os
import sys
from pathlib import Path

sys.path.insert(0, str(Path(__file__).resolve().parent.parent))
from mc import common

R = common.bootstrap()
from mc import dsched, explore, world as W  # noqa: E402
from mc.ref import format as F  # noqa: E402

W.install_virtual_time()

PID = 'C09'

# ---------------------------------------------------------------- harness data
BLK = [bytes([65 + i]) * 4 + bytes([97 + i]) * 4 for i in range(16)]  # distinct 8-byte blocks

TREES = {
    # snapshot harnesses
    'snapA': {'f1': BLK[0] + BLK[1] + BLK[2], 'f2': b'zz'},
    'snapB': {'f1': BLK[0] + BLK[1], 'f2': BLK[0] + BLK[1]},
    'snapC': {'f1': b''.join(BLK[:12])},
    # restore harnesses
    'restA': {'f1': BLK[0] + BLK[1] + BLK[2]},
    'restB': {'f1': BLK[0] + BLK[1], 'f2': BLK[2] + BLK[1]},
    'restC': {'f1': BLK[0] + BLK[1] + BLK[0] + BLK[2]},
    'restS': {'f1': BLK[0] + BLK[1]},
    'restD': {'f1': BLK[0], 'f2': BLK[1]},      # two one-chunk files in one new directory
}
SETTINGS = {'encryption': None, 'chunking': {'min_length': 8, 'max_length': 8}, 'hashing': {'name': 'sha2', 'bits': 256}}

_CTX = {}


def ctx():
    c = _CTX.get(os.getpid())
    if c is None:
        sc = common.Scratch()
        c = _CTX[os.getpid()] = {'sc': sc, 'src': {}, 'pre': {}, 'n': 0}
    return c


def src_dir(tree):
    c = ctx()
    if tree not in c['src']:
        d = c['sc'].sub('src-' + tree)
        W.write_tree(d, TREES[tree])
        c['src'][tree] = d
    return c['src'][tree]


def base_store():
    c = ctx()
    if 'base' not in c['pre']:
        st = W.Store()
        W.set_random('c09')
        W.run(W.a_init, st, SETTINGS)
        c['pre']['base'] = st.o
    return c['pre']['base']


def pre_state(tree, nsnap=1):
    """config + nsnap snapshots of the tree (taken under the default schedule)."""
    c = ctx()
    key = (tree, nsnap)
    if key not in c['pre']:
        st = W.Store(base_store())
        d = src_dir(tree)

        async def go():
            r = await W.a_open(st, None, N=2)
            with W.captured():
                for i in range(nsnap):
                    if nsnap > 1:
                        # older snapshots hold older content of the same paths; the newest holds the tree itself
                        for k, v in TREES[tree].items():
                            (d / k).write_bytes(v if i == nsnap - 1 else bytes(reversed(v)))
                    await r.snapshot(paths=[d])
                await r.close()

        W.set_clock()
        W.run(go)
        c['pre'][key] = dict(st.o)
    return c['pre'][key]


class Injected(Exception):
    pass


class InjectedOS(OSError):
    pass


import contextlib
import pathlib


@contextlib.contextmanager
def failing_source(fault, d, target=None, fired=None):
    """Make reading one source file fail: at open, or at its n-th read; or make the n-th write into the restore
    target fail (disk full)."""
    if fault is not None and fault[0] == 'target-write':
        from mc.fsteps import FSteps
        cnt = {'w': 0}

        def wstep(label, path):
            if label in ('write', 'os-write'):
                cnt['w'] += 1
                if cnt['w'] == fault[1]:
                    if fired is not None:
                        fired.append(path)
                    raise InjectedOS(28, 'No space left on device (injected)')

        fs = FSteps(target, wstep, reads=False, torn=False)
        fs.install()
        try:
            yield
        finally:
            fs.uninstall()
        return
    if fault is None or not str(fault[0]).startswith('source-'):
        yield
        return
    # below the code under test (mc.fsteps): the fault hits however the source file is opened and read
    from mc.fsteps import FSteps
    target = str(d / 'f1')
    cnt = {'read': 0}

    def step(label, path):
        if path != target:
            return
        if label == 'open-r' and fault[0] == 'source-open':
            raise InjectedOS(13, 'Permission denied (injected)')
        if label == 'read' and fault[0] == 'source-read':
            cnt['read'] += 1
            if cnt['read'] == fault[1]:
                raise InjectedOS(5, 'Input/output error (injected)')

    fs = FSteps(d, step, reads=True, torn=False)
    fs.install()
    try:
        yield
    finally:
        fs.uninstall()


def check_manifest(repo, store, res, d, tree):
    """The snapshot result must describe exactly the source files and every
    referenced chunk must be in the store with the right bytes."""
    problems = []
    want = {str(d / k): v for k, v in TREES[tree].items()}
    got = {}
    for f in res.data['files']:
        parts = []
        for cd in sorted(f['chunks'], key=lambda x: x['counter']):
            digest = res.chunks[cd['index']]
            loc = F.Reader(store.o).chunk_location(digest)     # documented naming scheme (unencrypted repository)
            if loc not in store.o:
                problems.append(f'chunk {loc[:20]} referenced by {Path(f["path"]).name} missing')
                parts.append(b'?')
                continue
            a, b = cd['range']
            parts.append(store.o[loc][a:b])
        if f['path'] in got:
            problems.append(f'file listed twice: {Path(f["path"]).name}')
        got[f['path']] = b''.join(parts)
        if f['digest'] is None or f['metadata'] is None:
            problems.append(f'file {Path(f["path"]).name} has no digest/metadata')
        elif f['digest'] != F.Reader(store.o).H(want.get(f['path'], b'')):
            problems.append(f'file {Path(f["path"]).name} digest mismatch')
    if got != want:
        for k in sorted(set(got) | set(want)):
            if got.get(k) != want.get(k):
                problems.append(f'content of {Path(k).name}: got {got.get(k)!r} want {want.get(k)!r}')
    if res.location not in store.o:
        problems.append('snapshot object missing')
    return problems


def slot_resources(repo):
    """What the Repository object holds in the way of counted resources - every queue, semaphore and collection of
    integers among its attributes, whatever they are called. "All connection slots are available again" = this is the
    same after the command as before it."""
    import asyncio
    sig = {}
    for k, v in vars(repo).items():
        if isinstance(v, asyncio.Queue):
            sig[k] = ('queue', v.qsize())
        elif isinstance(v, (asyncio.Semaphore, dsched.CSemaphore)):
            sig[k] = ('semaphore', getattr(v, '_value', getattr(v, 'value', None)))
        elif isinstance(v, (list, set, frozenset, tuple)) and v and all(isinstance(i, int) for i in v):
            sig[k] = ('ints', tuple(sorted(v)))
        elif isinstance(v, dsched.CQueue):
            sig[k] = ('queue', len(v.q))
    return sig


@explore.register
def run_c09(params, prefix):
    kind, tree, N, be, fault = params['kind'], params['tree'], params['N'], params['be'], params.get('fault')
    backend = W.MemBackend if be == 'plain' else W.AMemBackend
    c = ctx()
    c['n'] += 1
    d = src_dir(tree)
    store = W.Store(base_store() if kind == 'snapshot' else pre_state(tree, params.get('nsnap', 1)))
    target = c['sc'].path / f't{c["n"]}'
    holder = {}
    fired = []
    W.set_clock()
    W.set_random('c09x')

    if fault is not None and not str(fault[0]).startswith(('source-', 'target-')):
        fkind, fnth = fault
        seen = {'n': 0}

        def fault_fn(k, name, idx):
            if fkind == 'download-for-good':
                # the fnth object asked for with download() cannot be had, however often it is asked for
                if k == 'download':
                    if name not in seen.setdefault('names', []):
                        seen['names'].append(name)
                    if seen['names'].index(name) == fnth - 1:
                        fired.append(name)
                        raise Injected(f'download of object #{fnth} (every attempt)')
                return
            if k == fkind:
                seen['n'] += 1
                if seen['n'] == fnth:
                    raise Injected(f'{k} #{fnth}')

        store.fault = fault_fn

    async def go():
        repo = await W.a_open(store, None, N=N, backend=backend)
        holder['repo'] = repo
        holder['resources'] = slot_resources(repo)
        with W.captured():
            if kind == 'snapshot':
                res = await repo.snapshot(paths=[d], rate_limit=params.get('rate'))
            else:
                res = await repo.restore(path=target, rate_limit=params.get('rate'))
        return res

    with failing_source(fault, d, target, fired):
        x = dsched.run_one(lambda loop, s: go(), prefix, horizon=params.get('horizon', 6000),
                           fp_hook=store.fp, collect_states=True, want_env=(be == 'async'))
    repo = holder.get('repo')
    viol = []
    out = {'points': x.points, 'states': x.states, 'edges': x.edges, 'err': None}
    base_sig = {'kind': kind, 'tree': tree, 'N': N, 'be': be, 'fault': list(fault) if fault else None}
    if params.get('rate'):
        base_sig['rate'] = params['rate']

    def bad(what, **kw):
        viol.append((dict(base_sig, what=what, **{k: v for k, v in kw.items() if k in ('exc',)}),
                     dict(params=params, what=what, **kw)))

    calls = tuple(store.calls)
    out['order'] = explore.canon_order(calls)
    inflight = getattr(repo.backend, 'max_inflight', 0) if repo else 0
    out['inflight'] = inflight
    if x.err is not None:
        name = type(x.err).__name__
        if isinstance(x.err, dsched.Hang):
            out['err'] = 'hang'
            bad('hang', msg=str(x.err)[:300])
        elif isinstance(x.err, dsched.Horizon):
            out['err'] = 'capped'
        else:
            out['err'] = 'diverged'
        out['errmsg'] = str(x.err)[:300]
        out['outcome'] = ('ERR', name)
        out['obs'] = out['outcome']
        out['viol'] = viol
        _cleanup(target)
        return out

    if x.exc is not None:
        import traceback
        LAST_TB[:] = traceback.format_exception(x.exc)
        ename = type(x.exc).__name__
        outcome = ('EXC', ename)
        if fault is None or not isinstance(x.exc, (Injected, InjectedOS)):
            bad('exception', exc=ename, msg=repr(x.exc)[:300])
    else:
        if fault is not None and fault[0] == 'download-for-good':
            # an object that cannot be downloaded is not an object that does not exist: a restore that returns normally
            # must still have written the newest version of everything
            want = {W.restore_path(target, str(d / k)): v for k, v in TREES[tree].items()}
            got = {p_: v[0] for p_, v in W.read_tree(target).items()}
            outcome = ('OK-after-download-fault', bool(fired), got == want)
            if fired and got != want:
                bad('fault-swallowed', detail='restore returned normally although an object could not be downloaded; content differs')
        elif fault is not None and str(fault[0]).startswith('source-') and kind == 'snapshot':
            # the read may have been retried: fine if what was stored is exactly the source
            problems = check_manifest(repo, store, x.result, d, tree)
            outcome = ('OK-after-source-fault', tuple(problems))
            if problems:
                bad('fault-swallowed', problems=problems[:5])
        elif fault is not None and fault[0] == 'target-write':
            # a write into the target failed (if it was reached): the restore must not report success with wrong content
            want = {W.restore_path(target, str(d / k)): v for k, v in TREES[tree].items()}
            got = {p_: v[0] for p_, v in W.read_tree(target).items()}
            outcome = ('OK-after-write-fault', bool(fired), got == want)
            if fired and got != want:
                bad('fault-swallowed', detail='restore returned normally although a write into the target failed; content differs')
        elif fault is not None:
            # the failing call may legitimately never be reached only if fewer calls happen; report
            outcome = ('OK-nofault',) if True else None
            bad('fault-swallowed')
        elif kind == 'snapshot':
            problems = check_manifest(repo, store, x.result, d, tree)
            outcome = ('OK', len(x.result.chunks), len(x.result.data['files']), tuple(problems))
            if problems:
                bad('wrong-result', problems=problems[:5])
        else:
            want = {W.restore_path(target, str(d / k)): v for k, v in TREES[tree].items()}
            got = {p: v[0] for p, v in W.read_tree(target).items()}
            srcm = {W.restore_path(target, p): m for p, (b_, m) in W.read_tree(d).items()}
            gotm = {p: v[1] for p, v in W.read_tree(target).items()}
            problems = []
            if got != want:
                for k in sorted(set(got) | set(want)):
                    if got.get(k) != want.get(k):
                        problems.append(f'{Path(k).name}: got {got.get(k)!r} want {want.get(k)!r}')
            elif gotm != srcm:
                problems.append('mtime differs')
            if sorted(x.result.files) != sorted(str(d / k) for k in TREES[tree]):
                problems.append('returned file list differs')
            outcome = ('OK', tuple(problems))
            if problems:
                bad('wrong-result', problems=problems[:5])
    if inflight > N:
        bad('inflight', inflight=inflight)
    slots = slot_resources(repo) if repo else None
    if repo is not None and slots != holder.get('resources'):
        bad('slots-not-returned', slots=str(slots), before=str(holder.get('resources')))
    slots = tuple(sorted((k, str(v)) for k, v in (slots or {}).items()))
    if x.blocked:
        bad('blocked-after-quiescence', blocked=x.blocked[:5])
    out['outcome'] = outcome
    out['obs'] = (outcome, calls, slots, inflight)
    out['viol'] = viol
    _cleanup(target)
    return out


def _cleanup(target):
    import shutil

    shutil.rmtree(target, ignore_errors=True)


def replay(case):
    """Plain re-run of one recorded execution (no explorer)."""
    import traceback
    lines = case['params'].get('lines')
    loop_codes = dsched.loop_bound_code()
    line_codes = []
    if lines is True:
        line_codes = line_level_code()
    if lines == 'loop-bound-only':
        dsched.enable_line_points([], foreign_only=loop_codes)
    elif lines:
        dsched.enable_line_points(line_codes, foreign_only=loop_codes)
    try:
        r = run_c09(case['params'], case['choices'])
    finally:
        if lines:
            dsched.disable_line_points(line_codes + loop_codes)
    return {'outcome': r['outcome'], 'violations': [v[0] for v in r['viol']], 'err': r.get('err'),
            'points': len(r['points']), 'trace': LAST_TB[:]}


LAST_TB = []


def harnesses(t):
    hs = []
    for N in (1, 2):
        for be in ('plain', 'async'):
            for tree in ('snapA', 'snapB'):
                hs.append({'kind': 'snapshot', 'tree': tree, 'N': N, 'be': be})
            for tree in ('restA', 'restB', 'restC'):
                hs.append({'kind': 'restore', 'tree': tree, 'N': N, 'be': be})
    for be in ('plain', 'async'):
        # with a bandwidth limit: the limiter's lock and (virtual) sleeps take part in the schedule
        hs.append({'kind': 'snapshot', 'tree': 'snapA', 'N': 2, 'be': be, 'rate': 64})
        hs.append({'kind': 'restore', 'tree': 'restB', 'N': 2, 'be': be, 'rate': 64})
        hs.append({'kind': 'snapshot', 'tree': 'snapC', 'N': 1, 'be': be, 'horizon': 12000})
        # more snapshots than slots: loading them is subject to the transfer limit as well
        hs.append({'kind': 'restore', 'tree': 'restS', 'N': 2, 'be': be, 'nsnap': 5})
        hs.append({'kind': 'restore', 'tree': 'restS', 'N': 1, 'be': be, 'nsnap': 3})
        for N in (1, 2):
            hs.append({'kind': 'snapshot', 'tree': 'snapA', 'N': N, 'be': be, 'fault': ('upload_stream', 2)})
            if be == 'plain':
                # a source file that cannot be opened / read: the snapshot must fail, not publish partial state
                hs.append({'kind': 'snapshot', 'tree': 'snapA', 'N': N, 'be': be, 'fault': ('source-open', 1)})
                hs.append({'kind': 'snapshot', 'tree': 'snapA', 'N': N, 'be': be, 'fault': ('source-read', 1)})
                hs.append({'kind': 'snapshot', 'tree': 'snapA', 'N': N, 'be': be, 'fault': ('source-read', 2)})
            hs.append({'kind': 'restore', 'tree': 'restB', 'N': N, 'be': be, 'fault': ('download_stream', 2)})
            # a snapshot object that cannot be downloaded (restS holds several snapshots of one path: the newest must win)
            hs.append({'kind': 'restore', 'tree': 'restS', 'N': N, 'be': be, 'nsnap': 3, 'fault': ('download-for-good', 1)})
            hs.append({'kind': 'restore', 'tree': 'restS', 'N': N, 'be': be, 'nsnap': 3, 'fault': ('download-for-good', 3)})
            if N == 1:
                # every upload worker has failed while the producer still has more chunks than the queue holds
                hs.append({'kind': 'snapshot', 'tree': 'snapC', 'N': 1, 'be': be, 'fault': ('upload_stream', 1), 'horizon': 12000})
            if be == 'plain':
                # the disk fills up while a part of a file is written
                hs.append({'kind': 'restore', 'tree': 'restB', 'N': N, 'be': be, 'fault': ('target-write', 1)})
                hs.append({'kind': 'restore', 'tree': 'restB', 'N': N, 'be': be, 'fault': ('target-write', 3)})
    return hs


def line_level_code():
    names = {'_chunk_done', '_stream_files', '_chunk_producer', '_worker', '_download_chunk', '_write_chunk_ref'}
    line_codes = dsched.find_code(R.Repository.snapshot.__code__, names) + \
        dsched.find_code(R.Repository.restore.__code__, names)
    if len(line_codes) < 4:
        # the closures were renamed or restructured: fall back to every function nested in the two commands
        line_codes = dsched.find_code(R.Repository.snapshot.__code__, None) + \
            dsched.find_code(R.Repository.restore.__code__, None)
    wfp = getattr(R.Repository, '_write_file_part', None)
    if wfp is not None:
        line_codes.append(wfp.__code__)
    return line_codes


def main():
    t = common.tier()
    chk = common.Check(PID, 'model_checking')
    line_codes = line_level_code()
    # loop-bound asyncio primitives: their lines are points only for threads that have no business calling them
    loop_codes = dsched.loop_bound_code()
    plan = []
    for h in harnesses(t):
        bound = 1
        plan.append((h, bound, False))
    # two transfers can only overlap from two deviations on: d=2 on the smallest harnesses
    small = [{'kind': 'snapshot', 'tree': 'snapA', 'N': 2, 'be': 'async'},
             {'kind': 'restore', 'tree': 'restA', 'N': 2, 'be': 'async'},
             {'kind': 'restore', 'tree': 'restB', 'N': 2, 'be': 'plain'}]
    if t == 'quick':
        plan.append((small[0], 2, False))
        plan.append(({'kind': 'restore', 'tree': 'restS', 'N': 2, 'be': 'plain'}, 2, False))
    else:
        for h in harnesses(t):
            if h['tree'] != 'snapC':
                plan.append((h, 2, False))
        for h in small:
            plan.append((dict(h, lines=True), 1, True))
        # line-level preemption with two deviations on the smallest harnesses (unsynchronised accesses
        # inside and between the closures that share state, incl. the per-file lock table and file writes)
        plan.append(({'kind': 'restore', 'tree': 'restS', 'N': 2, 'be': 'plain', 'lines': True}, 2, True))
        plan.append(({'kind': 'restore', 'tree': 'restB', 'N': 2, 'be': 'plain', 'lines': True}, 1, True))
        plan.append(({'kind': 'restore', 'tree': 'restD', 'N': 2, 'be': 'plain', 'lines': True}, 1, True))
        plan.append(({'kind': 'restore', 'tree': 'restD', 'N': 2, 'be': 'async', 'lines': True}, 1, True))
        plan.append(({'kind': 'snapshot', 'tree': 'snapA', 'N': 2, 'be': 'plain', 'lines': True}, 2, True))
    if t == 'quick':
        plan.append(({'kind': 'restore', 'tree': 'restB', 'N': 2, 'be': 'plain', 'lines': True}, 1, True))
        plan.append(({'kind': 'restore', 'tree': 'restD', 'N': 2, 'be': 'plain', 'lines': True}, 1, True))
        plan.append(({'kind': 'restore', 'tree': 'restD', 'N': 2, 'be': 'async', 'lines': True}, 1, True))
        plan.append(({'kind': 'restore', 'tree': 'restS', 'N': 2, 'be': 'plain', 'lines': True}, 1, True))
        plan.append(({'kind': 'snapshot', 'tree': 'snapA', 'N': 2, 'be': 'plain', 'lines': True}, 1, True))
        # one slot, two loader threads: whatever the threads do to get at the slot is raced at line level
        for h_ in ({'kind': 'restore', 'tree': 'restA', 'N': 1, 'be': 'plain', 'lines': 'loop-bound-only'},
                   {'kind': 'restore', 'tree': 'restB', 'N': 1, 'be': 'plain', 'lines': 'loop-bound-only'},
                   {'kind': 'snapshot', 'tree': 'snapA', 'N': 1, 'be': 'plain', 'lines': 'loop-bound-only'}):
            plan.append((h_, 2, 'loop'))

    tot = explore.Agg()
    per = []
    det_all = True
    for h, bound, lines in plan:
        if lines == 'loop':
            # only inside loop-bound asyncio primitives, and only for threads other than the loop's: on code that keeps
            # its worker threads away from them this adds no point at all
            dsched.enable_line_points([], foreign_only=loop_codes)
        elif lines:
            dsched.enable_line_points(line_codes, foreign_only=loop_codes)
        try:
            agg, info = explore.explore(run_c09, h, bound)
        finally:
            if lines:
                dsched.disable_line_points(line_codes + loop_codes)
        det_all &= info['deterministic_replay']
        if not info['deterministic_replay']:
            chk.harness_error(f'replay of {h} not deterministic')
        per.append({'harness': h, 'bound': bound, 'line_points': lines, 'executions': agg.executions,
                    'max_points': agg.max_points, 'outcomes': len(agg.outcomes), 'call_orders': len(agg.orders),
                    'max_inflight': agg.max_inflight, 'states': len(agg.states), 'wall_s': info['wall_s'],
                    'errs': {k: v[0] for k, v in agg.errs.items()}})
        for sig, detail in agg.viol:
            chk.violation(sig, detail)
        for k, v in agg.errs.items():
            if k in ('capped', 'diverged'):
                chk.harness_error(f'{k} in {h}: {v[2]} x{v[0]}')
        tot.merge(agg)
        if len(chk.samples) < 4:
            ex = next(iter(agg.outcomes.items()))
            chk.sample({'harness': h, 'bound': bound, 'default_schedule_outcome': ex[0],
                        'example_choice_list': ex[1][1][:60]})

    chk.coverage.update({
        'states': len(tot.states), 'transitions': len(tot.edges),
        'traces_validated_against_impl': tot.executions,
        'evaluations': tot.executions, 'distinct_nontrivial': len(tot.orders),
        'rule': 'every execution of each harness with <= bound deviations from the default schedule; '
                'every execution is a distinct schedule by construction; distinct_nontrivial counts the distinct backend call '
                'orders they produce (snapshot names canonicalised, so the count does not depend on which worker process ran an '
                'execution); state = (per-participant step vector, backend log position)',
        'executions_by_deviations': {str(k): v for k, v in sorted(tot.by_dev.items())},
        'scheduling_points_total': tot.total_points, 'max_points_per_execution': tot.max_points,
        'distinct_outcomes': len(tot.outcomes), 'max_inflight_seen': tot.max_inflight,
        'deterministic_replay_checked': det_all, 'harnesses': per,
    })
    chk.assumptions += [
        'the controlled Lock/Event/Queue/Executor/Future replacements have the semantics of the originals',
        'preemption only at synchronisation operations and backend entries (quick); additionally at every source line '
        'of the closures sharing state between threads (thorough, line harnesses)',
        'N <= 2, at most 2 deviations',
    ]
    return chk.finish()


if __name__ == '__main__':
    sys.exit(common.run_main(main))
