"""C14 - what replicat writes follows the documented repository format.

 (read)  replicat writes, the independent reader (mc/ref/format.py: hashlib + cryptography + json only) decodes:
         config, key file, every storage name recomputed from digests and the MAC key, chunk keys derived from
         the shared key and the digest, chunk table / private data split, ranges tile every file exactly.
         Trees x every cipher x hash x chunker; plus every completion order of the uploads of a snapshot with
         repeated non-adjacent chunks (coroutine backend, exhaustive).
 (write) the independent writer emits repositories (current and pre-1.3 metadata variant, shuffled chunk
         entries, empty files); replicat unlocks and restores them."""
import datetime as dt
import os
import shutil
import sys
from pathlib import Path

sys.path.insert(0, str(Path(__file__).resolve().parent.parent))
from mc import common

R = common.bootstrap()
from mc import dsched, explore, hist as H, world as W  # noqa: E402
from mc.ref import format as F  # noqa: E402

PID = 'C14'
CIPHERS = [None, {'name': 'aes_gcm', 'key_bits': 128}, {'name': 'aes_gcm', 'key_bits': 192}, {'name': 'aes_gcm', 'key_bits': 256},
           {'name': 'chacha20_poly1305'}]
HASHES = [{'name': 'blake2b', 'length': 64}, {'name': 'blake2b', 'length': 20}, {'name': 'sha2', 'bits': 224},
          {'name': 'sha2', 'bits': 256}, {'name': 'sha2', 'bits': 512}, {'name': 'sha3', 'bits': 256}, {'name': 'sha3', 'bits': 384}]
CHUNKERS = [(4, 8), (8, 8), (1, 4), (4, 64)]
KDFS = [{'n': 4, 'r': 1}, {'n': 2, 'r': 8, 'p': 2}, {'name': 'blake2b'}]
BLK = [bytes([65 + i]) * 4 + bytes([97 + i]) * 4 for i in range(8)]
TREES = [
    {'a': b''.join(BLK[:3]), 'sub/b': b'zz'},
    {'a': BLK[0] + BLK[1] + BLK[0] + BLK[2], 'e': b''},
    {'é': bytes(range(25)), 'n\udcff': bytes(17), 'sp ace': b'x'},
    {'same1': BLK[3] + BLK[4], 'same2': BLK[3] + BLK[4], 'tail': BLK[4] + b'123'},
    {'only': b'12345'},
]


def settings(ci, ha, ch, kdf):
    s = {'chunking': {'min_length': ch[0], 'max_length': ch[1]}, 'hashing': dict(ha)}
    s['encryption'] = None if ci is None else {'cipher': dict(ci), 'kdf': dict(kdf)}
    return s


def verify_with_reader(objects, password, key, model, note, sig0, detail0):
    """model: recorded path -> (bytes, mtime_ns). Returns violations."""
    vs = []

    def bad(what, **kw):
        vs.append((dict(sig0, what=what), dict(detail0, **kw)))

    try:
        rd = F.Reader(objects, password, key)
    except Exception as e:
        bad('reader-cannot-open', err=repr(e)[:200])
        return vs
    snaps = [k for k in objects if k.startswith('snapshots/')]
    referenced = set()
    for loc in snaps:
        try:
            if not rd.owns_snapshot_name(loc):
                bad('snapshot-tag-is-not-the-mac-of-its-name')
            if rd.snapshot_location(objects[loc]) != loc:
                bad('snapshot-name-not-derived-from-body')
            snap = rd.snapshot(loc)
            data = snap['data']
            if data is None:
                bad('private-part-not-decryptable-with-user-key')
                continue
            if note is not None and data.get('note') != note:
                bad('note-missing')
            dt.datetime.fromisoformat(data['utc_timestamp'])
            got = {}
            for f in data['files']:
                entries = sorted(f['chunks'], key=lambda c: c['counter'])
                body = rd.file_bytes(snap, f)
                got[f['path']] = body
                if f['path'] in model:
                    want, mtime = model[f['path']]
                    if body != want:
                        bad('file-content', path=f['path'], got=body, want=want)
                    if f['digest'] != rd.H(want):
                        bad('file-digest')
                    md = f['metadata']
                    if md.get('st_size') != len(want) or md.get('st_mtime_ns') != mtime:
                        bad('file-metadata', md=md)
                    if sum(c['range'][1] - c['range'][0] for c in entries) != len(want):
                        bad('ranges-do-not-tile-the-file')
                for c in entries:
                    referenced.add(rd.chunk_location(snap['chunks'][c['index']]))
            for d in snap['chunks']:
                referenced.add(rd.chunk_location(d))
                rd.chunk_plain(d)   # present, decrypts with KDF(shared key, digest), hashes to the digest
            if set(got) != set(model):
                bad('file-set', got=sorted(got), want=sorted(model))
        except (F.FormatError, KeyError, ValueError, TypeError) as e:
            bad('reader-error', err=repr(e)[:300], loc=loc)
    area = {k for k in objects if k.startswith('data/')}
    if area != referenced:
        bad('chunk-names-not-derivable', extra=len(area - referenced), missing=len(referenced - area))
    other = [k for k in objects if not k.startswith(('data/', 'snapshots/')) and k != 'config']
    if other:
        bad('unexpected-objects', names=other[:3])
    if rd.encrypted:
        # nothing but the config parses without the key
        for k, v in objects.items():
            if k == 'config':
                continue
            if k.startswith('snapshots/'):
                obj = F.loads(v)
                if set(obj) != {'chunks', 'data'} or not all(isinstance(x, bytes) for x in obj.values()):
                    bad('snapshot-body-not-two-blobs')
    return vs


def read_case(args):
    ti, ci, ha, ch, kdf, N, be = args
    sc = H.worker_scratch()
    root = sc.sub()
    tree = TREES[ti]
    written = W.write_tree(root / 'src', tree)
    model = {p: v for p, v in written.items()}
    st = W.Store()
    W.set_random(f'c14-{args!r}')
    W.set_clock(dt.datetime(2024, 2, 29, 23, 59, 58))
    sig0 = {'part': 'read', 'cipher': ci['name'] if ci else None, 'hash': ha['name']}
    detail0 = {'args': args}
    password = b'p\xc3\xa4ss word' if ci else None
    try:
        key = W.run(W.a_init, st, settings(ci, ha, ch, {k_: v_ for k_, v_ in kdf.items() if k_ != 'may-be-rejected'}), password,
                    backend=be)
    except Exception as e:
        shutil.rmtree(root, ignore_errors=True)
        if kdf.get('may-be-rejected'):
            return 1, []     # refusing the settings is fine; accepting them obliges to write what the key file says
        return 1, [(dict(sig0, what='init-failed'), dict(detail0, err=repr(e)[:200]))]
    user = W.User('u', password, key) if key else None

    async def go():
        repo = await W.a_open(st, user, N=N, backend=be)
        with W.captured():
            await repo.snapshot(paths=[root / 'src'], note='a note')
            await repo.close()

    try:
        W.run(go)
    except Exception as e:
        shutil.rmtree(root, ignore_errors=True)
        return 1, [(dict(sig0, what='snapshot-failed'), dict(detail0, err=repr(e)[:200]))]
    vs = verify_with_reader(st.o, password, key, model, 'a note', sig0, detail0)
    shutil.rmtree(root, ignore_errors=True)
    return 1, vs


def reunlock_case(args):
    """ONE Repository object writes for two users with independent keys in turn (unlocked again in between, no
    close): what it stores for each must decode with that user's key alone, exactly like objects written by a fresh
    process."""
    ti, ci, ha, ch, order = args
    sc = H.worker_scratch()
    root = sc.sub()
    written = W.write_tree(root / 'src', TREES[ti])
    model = {p: v for p, v in written.items()}
    st = W.Store()
    W.set_random(f'c14r-{args!r}')
    W.set_clock(dt.datetime(2024, 2, 29, 23, 59, 58))
    sig0 = {'part': 'one-object-two-keys', 'cipher': ci['name'], 'hash': ha['name']}
    detail0 = {'args': args}
    pw = {'A': b'p\xc3\xa4ss word', 'C': b'another password'}
    try:
        keyA = W.run(W.a_init, st, settings(ci, ha, ch, KDFS[0]), pw['A'])
        keyC = W.run(W.a_add_key, st, W.User('A', pw['A'], keyA), pw['C'], False)
    except Exception as e:
        shutil.rmtree(root, ignore_errors=True)
        return 1, [(dict(sig0, what='init-failed'), dict(detail0, err=repr(e)[:200]))]
    users = {'A': W.User('A', pw['A'], keyA), 'C': W.User('C', pw['C'], keyC)}

    async def go():
        first, second = order
        repo = await W.a_open(st, users[first], N=2)
        with W.captured():
            await repo.snapshot(paths=[root / 'src'], note='a note')
            await repo.unlock(password=users[second].password, key=users[second].key)
            await repo.snapshot(paths=[root / 'src'], note='a note')
            await repo.unlock(password=users[first].password, key=users[first].key)
            t = sc.sub()
            await repo.restore(path=t)
            shutil.rmtree(t, ignore_errors=True)
            await repo.close()

    try:
        W.run(go)
    except Exception as e:
        shutil.rmtree(root, ignore_errors=True)
        return 1, [(dict(sig0, what='snapshot-failed'), dict(detail0, err=repr(e)[:200]))]
    vs = []
    for u, usr in users.items():
        try:
            rd = F.Reader(st.o, usr.password, usr.key)
        except Exception as e:
            vs.append((dict(sig0, what='reader-cannot-open', user=u), dict(detail0, err=repr(e)[:200])))
            continue
        mine = {k: v for k, v in st.o.items() if k == 'config' or (k.startswith('snapshots/') and rd.owns_snapshot_name(k))
                or (k.startswith('data/') and rd.owns_chunk_name(k))}
        vs += verify_with_reader(mine, usr.password, usr.key, model, 'a note', dict(sig0, user=u), detail0)
    shutil.rmtree(root, ignore_errors=True)
    return 1, vs


# ---- every completion order of one snapshot with repeated, non-adjacent chunks
_ORD = {}


def ord_setup(enc):
    if (os.getpid(), enc) not in _ORD:
        root = H.fixed_root('c14-ord')
        src = root / 'src'
        if not src.exists():
            W.write_tree(src, {'f': BLK[0] + BLK[1] + BLK[0] + BLK[2] + BLK[1]})
        st = W.Store()
        W.set_random('c14-ord')
        ci = {'name': 'aes_gcm', 'key_bits': 128} if enc else None
        key = W.run(W.a_init, st, settings(ci, HASHES[1], (8, 8), KDFS[0]), b'pw' if enc else None)
        written = {str(src / 'f'): (BLK[0] + BLK[1] + BLK[0] + BLK[2] + BLK[1], os.stat(src / 'f').st_mtime_ns)}
        _ORD[(os.getpid(), enc)] = (dict(st.o), key, src, written)
    return _ORD[(os.getpid(), enc)]


@explore.register
def run_ord(params, prefix):
    objects, key, src, model = ord_setup(params['enc'])
    st = W.Store(objects)
    user = W.User('u', b'pw', key) if key else None
    W.set_random('c14-ord-run')
    W.set_clock()

    async def go():
        repo = await W.a_open(st, user, N=params['N'], backend=W.AMemBackend)
        with W.captured():
            await repo.snapshot(paths=[src])
            await repo.close()

    x = dsched.run_one(lambda loop, s: go(), prefix, horizon=6000, want_env=True)
    out = {'points': x.points, 'err': None, 'viol': [], 'order': explore.canon_order(st.calls)}
    sig0 = {'part': 'read-orders', 'enc': params['enc']}
    if x.err is not None or x.exc is not None:
        out['err'] = None if x.err is None else ('hang' if isinstance(x.err, dsched.Hang) else 'capped' if isinstance(x.err, dsched.Horizon) else 'diverged')
        out['errmsg'] = str(x.err)[:200]
        out['viol'].append((dict(sig0, what='snapshot-failed'), {'params': params, 'err': repr(x.exc or x.err)[:200]}))
        out['outcome'] = out['obs'] = ('ERR',)
        return out
    vs = verify_with_reader(st.o, b'pw' if key else None, key, model, None, sig0, {'params': params})
    out['viol'] = vs[:1]
    out['outcome'] = ('OK', len(vs))
    out['obs'] = (out['outcome'], tuple(st.calls))
    return out


# ---------------------------------------------------------------- (write)
def write_case(args):
    ti, ci, ha, legacy, shuffle, chunk_len = args[:6]
    chunkless = len(args) > 6 and args[6]
    sc = H.worker_scratch()
    root = sc.sub()
    tree = TREES[ti]
    base = '/srv/backup-src'
    files = {f'{base}/{rel}': data for rel, data in tree.items()}
    cfg = {'hashing': dict(ha), 'chunking': {'name': 'gclmulchunker', 'min_length': 4, 'max_length': 8}}
    if ci is not None:
        cfg['encryption'] = {'cipher': dict(ci)}
    ctr = [0]

    def rnd(n):
        import hashlib
        ctr[0] += 1
        out = b''
        while len(out) < n:
            out += hashlib.sha256(f'{args!r}:{ctr[0]}:{len(out)}'.encode()).digest()
        return out[:n]

    pw = b'writer pw' if ci else None
    w = F.Writer(cfg, pw, rnd=rnd)
    older = {p: (d + b'-old') for p, d in list(files.items())[:1]}
    w.add_snapshot(older, '2023-12-31 23:59:59', chunk_len=chunk_len, legacy_metadata=legacy)
    # an empty file may be recorded as an empty range of some chunk or with no chunk entries at all
    w.add_snapshot(files, '2024-01-01 00:00:00.000001', note='n', chunk_len=chunk_len, legacy_metadata=legacy,
                   shuffle_chunks=shuffle, chunkless_empty=chunkless)
    st = W.Store(w.o)
    user = W.User('u', pw, w.keyfile) if ci else None
    target = root / 'out'
    sig0 = {'part': 'write', 'cipher': ci['name'] if ci else None, 'legacy': legacy}
    vs = []

    async def go():
        repo = await W.a_open(st, user, N=2)
        with W.captured():
            r = await repo.restore(path=target)
            await repo.close()
        return r

    try:
        res = W.run(go)
    except Exception as e:
        shutil.rmtree(root, ignore_errors=True)
        return 1, [(dict(sig0, what='restore-failed'), {'args': args, 'err': repr(e)[:300]})]
    got = W.read_tree(target)
    want = {W.restore_path(target, p): d for p, d in files.items()}
    if {p: v[0] for p, v in got.items()} != want:
        vs.append((dict(sig0, what='restored-content'),
                   {'args': args, 'got': {Path(k).name: v[0] for k, v in got.items()}, 'want': {Path(k).name: v for k, v in want.items()}}))
    else:
        want_m = 1_600_000_400_500_000_000 if legacy else 1_600_000_400_000_000_123
        for p, v in got.items():
            if abs(v[1] - want_m) > (1000 if legacy else 0):
                vs.append((dict(sig0, what='restored-mtime'), {'args': args, 'got': v[1], 'want': want_m}))
                break
    if sorted(res.files) != sorted(files):
        vs.append((dict(sig0, what='returned-files'), {'args': args}))
    shutil.rmtree(root, ignore_errors=True)
    return 1, vs


def replay(case):
    if isinstance(case.get('args'), list) and len(case['args']) == 5 and isinstance(case['args'][4], (list, tuple)):
        a = case['args']
        n, vs = reunlock_case((a[0], a[1], a[2], tuple(a[3]), tuple(a[4])))
        return {'violations': [v[0] for v in vs]}
    return _replay_other(case)


def _replay_other(case):
    if 'params' in case:
        r = run_ord(case['params'], case.get('choices', []))
        return {'violations': [v[0] for v in r['viol']]}

    def tup(x):
        return tuple(tup(y) if isinstance(y, list) else y for y in x) if isinstance(x, list) else x
    args = tup(case['args'])
    fn = write_case if (len(args) in (6, 7) and isinstance(args[3], bool)) else read_case
    if fn is read_case:
        args = args[:6] + (W.MemBackend,)
    n, vs = fn(args)
    return {'violations': [v[0] for v in vs]}


def main():
    t = common.tier()
    chk = common.Check(PID, 'exploration')
    chk.unexercised_whats = {'init-failed', 'snapshot-failed'}   # a failing command is not what C14 is about: reported as 'could not exercise'
    try:
        rcases = []
        for ti in range(len(TREES)):
            for ci in CIPHERS:
                for ha in HASHES:
                    rcases.append((ti, ci, ha, CHUNKERS[0], KDFS[0], 2, W.MemBackend))
        for ch in CHUNKERS[1:]:
            for ti in range(len(TREES)):
                for ci in (None, CIPHERS[1], CIPHERS[4]):
                    rcases.append((ti, ci, HASHES[1], ch, KDFS[0], 1, W.MemBackend))
        for kdf in KDFS[1:]:
            for ci in CIPHERS[1:]:
                rcases.append((0, ci, HASHES[0], CHUNKERS[0], kdf, 2, W.AMemBackend))
        # key-derivation parameters an implementation might refuse or might "repair": if it accepts them, the key file
        # must say what was actually used
        for kdf in ({'n': 1000, 'r': 1, 'may-be-rejected': True}, {'n': 6, 'r': 1, 'may-be-rejected': True},
                    {'n': 4, 'r': 1, 'p': 3, 'may-be-rejected': True}, {'name': 'blake2b', 'length': 48, 'may-be-rejected': True}):
            rcases.append((0, CIPHERS[1], HASHES[0], CHUNKERS[0], kdf, 2, W.MemBackend))
        n = 0
        for k, vs in common.pmap(read_case, common.shuffled(rcases, 'r'), ordered=False, chunksize=4):
            n += k
            for sig, d in vs:
                d = dict(d, args=[a if not isinstance(a, type) else a.__name__ for a in d['args']])
                chk.violation(sig, d)
        ucases = [(ti, ci, ha, ch, order) for ti in range(len(TREES)) for ci in CIPHERS[1:] for ha in (HASHES[0], HASHES[2])
                  for ch in (CHUNKERS[0], CHUNKERS[1]) for order in (('A', 'C'), ('C', 'A'))]
        for k, vs in common.pmap(reunlock_case, common.shuffled(ucases, 'u'), ordered=False, chunksize=4):
            n += k
            for sig, d in vs:
                chk.violation(sig, d)
        chk.coverage['one_object_two_keys_cases'] = len(ucases)
        chk.sample({'part': 'read', 'tree': sorted(TREES[1]), 'cipher': CIPHERS[1], 'hash': HASHES[2]})
        tot = explore.Agg()
        for enc in (False, True):
            for N in ((2,) if t == 'quick' else (2, 3)):
                agg, info = explore.explore(run_ord, {'enc': enc, 'N': N, '_free': ['env-complete']}, 0 if t == 'quick' else 1)
                for sig, d in agg.viol:
                    chk.violation(sig, d)
                for kk, v in agg.errs.items():
                    if kk in ('capped', 'diverged'):
                        chk.harness_error(f'{kk}: {v[2]}')
                tot.merge(agg)
        wcases = []
        for ti in range(len(TREES)):
            for ci in CIPHERS:
                for ha in (HASHES if t == 'thorough' else HASHES[:2] + HASHES[3:4] + HASHES[6:]):
                    for legacy in (False, True):
                        for shuffle in (False, True):
                            wcases.append((ti, ci, ha, legacy, shuffle, 8 if not shuffle else 5))
                            if any(len(d) == 0 for d in TREES[ti].values()):
                                wcases.append((ti, ci, ha, legacy, shuffle, 8 if not shuffle else 5, True))
        nw = 0
        for k, vs in common.pmap(write_case, common.shuffled(wcases, 'w'), ordered=False, chunksize=4):
            nw += k
            for sig, d in vs:
                chk.violation(sig, d)
        chk.sample({'part': 'write', 'tree': sorted(TREES[2]), 'cipher': CIPHERS[4], 'legacy_metadata': True})
        chk.coverage.update({
            'evaluations': n + nw + tot.executions, 'distinct_nontrivial': n + nw + len(tot.orders),
            'rule': 'read: trees x every cipher x every hash (+ chunkers, KDFs, coroutine backend) decoded by the independent '
                    'reader; all completion orders of a snapshot with repeated chunks; write: independent writer x configs x '
                    '{current, pre-1.3 metadata} x {ordered, shuffled chunk entries} restored by replicat',
            'read_cases': n, 'write_cases': nw, 'order_executions': tot.executions, 'distinct_call_orders': len(tot.orders),
        })
        chk.assumptions += ['the reference reader/writer encode the documented scheme (README security section); they import '
                            'nothing from replicat']
    finally:
        H.cleanup_fixed_root()
    return chk.finish()


if __name__ == '__main__':
    sys.exit(common.run_main(main))
