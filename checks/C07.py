"""C07 - identical data is stored once.

E2 over crash-free histories: in every state the chunk area equals the set of
names of distinct chunks referenced by the snapshot objects present; no command
uploads a payload under a name that already existed; independent key families
never alias. A second pass keeps ONE Repository object per user alive over the
whole history (library use)."""
import itertools
import sys
from pathlib import Path

sys.path.insert(0, str(Path(__file__).resolve().parent.parent))
from mc import common

R = common.bootstrap()
from mc import hist as H, world as W  # noqa: E402

PID = 'C07'
MENU = ['F1', 'F2', 'F3', 'F4', 'F5']


def state_problems(state):
    ps = []
    area = H.chunk_area(state)
    ref = H.referenced_names_all(state)
    if area != ref:
        ps.append({'what': 'chunk-area-differs', 'orphans': len(area - ref), 'missing': len(ref - area),
                   'example': sorted((area - ref) | (ref - area))[:2]})
    # independent families never alias: a chunk name is owned by exactly one family
    if any(u['kind'] != 'plain' for u in state.users.values()):
        fams = {}
        for uname, u in state.users.items():
            fams.setdefault(u['family'], uname)
        owners = {}
        for fam, uname in fams.items():
            rd = H.reader_for(state, uname)
            for loc in area:
                if rd.owns_chunk_name(loc):
                    owners.setdefault(loc, []).append(fam)
        for loc, fs in owners.items():
            if len(fs) != 1:
                ps.append({'what': 'aliased-chunk', 'loc': loc, 'families': fs})
                break
        unowned = [loc for loc in area if loc not in owners]
        if unowned:
            ps.append({'what': 'unowned-chunk', 'loc': unowned[0]})
    return ps


def transition_problems(before, res, ev):
    ps = []
    ups = [name for kind, name in res.calls if kind == 'upload_stream']
    again = [n for n in ups if n in before.o]
    if again:
        ps.append({'what': 'payload-uploaded-again', 'count': len(again), 'name': again[0]})
    if ev[0] not in ('snap', 'snapargs') and ups:
        ps.append({'what': 'upload-by-non-snapshot'})
    # unchanged data: the same file set is already held by a snapshot of the caller's key family
    if ev[0] in ('snap', 'snapargs') and ups:
        fam = before.users[ev[1]]['family']
        if any(e['fsid'] == ev[2] and before.users[e['owner']]['family'] == fam and e['loc'] in before.o for e in before.ledger):
            ps.append({'what': 'unchanged-data-transferred', 'uploads': len(ups)})
    return ps


def expand(state):
    fsdirs = H.materialize()
    out = []
    N = 2 if (len(state.hist) % 2 == 0) else 1
    extra = []
    for u in sorted(state.users):
        for order in ('fwd', 'rev'):
            extra.append(('snapargs', u, 'F6', order))
    for ev in H.standard_events(state, MENU_T) + extra:
        res = H.apply(state, ev, fsdirs, N=N)
        new = res.state
        vs = []
        sig0 = {'event': ev[0], 'actor_kind': state.users[ev[1]]['kind'], 'mode': 'fresh-process'}
        if res.exc is not None:
            vs.append((dict(sig0, what='command-failed', exc=type(res.exc).__name__), {'hist': new.hist, 'err': repr(res.exc)[:300]}))
        for p in transition_problems(state, res, ev) + state_problems(new):
            vs.append((dict(sig0, what=p['what']), {'hist': new.hist, 'problem': p}))
        out.append((ev, new, H.canon(new), vs))
    return out


MENU_T = MENU


def session_histories(kind, depth, menu):
    """All histories of length <= depth (events depend on the ledger, so enumerate by replay of prefixes)."""
    s0 = H.make_initial(kind)
    users = ['A', 'B', 'C'] if kind == 'enc' else ['U']
    # ledger evolution is deterministic given the event list: simulate indices only
    def events(ledger):
        evs = []
        for u in users:
            for f in menu:
                evs.append(('snap', u, f))
            own = [i for i, o in enumerate(ledger) if o == u]
            for i in own:
                evs.append(('del', u, (i,)))
            for a, b in itertools.combinations(own, 2):
                evs.append(('del', u, (a, b)))
            evs.append(('clean', u))
        return evs

    out = []

    def rec(hist, ledger):
        if len(hist) == depth:
            out.append(list(hist))
            return
        for ev in events(ledger):
            if ev[0] == 'snap':
                l2 = ledger + [ev[1]]
            elif ev[0] == 'del':
                l2 = [o for i, o in enumerate(ledger) if i not in ev[2]]
            else:
                l2 = ledger
            rec(hist + [ev], l2)

    rec([], [])
    return out


def narrow_histories(depth):
    """Deep but narrow: users A and B (shared key), one file set, delete-all and clean; every
    history of exactly `depth` events without no-op deletes."""
    steps = [('snap', 'A', 'F1'), ('snap', 'B', 'F1'), ('delall', 'A'), ('delall', 'B'), ('clean', 'A'), ('clean', 'B')]
    out = []

    def rec(hist, owners):
        if len(hist) == depth:
            out.append(list(hist))
            return
        for ev in steps:
            if ev[0] == 'delall' and ev[1] not in owners:
                continue
            if ev[0] == 'clean' and hist and hist[-1][0] == 'clean':
                continue
            o2 = owners + [ev[1]] if ev[0] == 'snap' else ([o for o in owners if o != ev[1]] if ev[0] == 'delall' else owners)
            rec(hist + [ev], o2)

    rec([], [])
    return out


def run_session_case(args):
    kind, events = args[:2]
    one_object = len(args) > 2 and args[2]
    fsdirs = H.materialize()
    s0 = H.make_initial(kind)
    steps = H.run_session(s0, events, fsdirs, one_object=one_object)
    vs = []
    before = s0
    n = 0
    for ev, new, res in steps:
        n += 1
        sig0 = {'event': ev[0], 'actor_kind': s0.users[ev[1]]['kind'],
                'mode': 'one-repository-object-for-all-users' if one_object else 'long-lived-repository'}
        if res.exc is not None:
            vs.append((dict(sig0, what='command-failed', exc=type(res.exc).__name__), {'hist': new.hist, 'err': repr(res.exc)[:300]}))
        for p in transition_problems(before, res, ev) + state_problems(new):
            vs.append((dict(sig0, what=p['what']), {'hist': new.hist, 'problem': p, 'mode': 'session', 'one_object': bool(one_object)}))
        before = new
    return n, vs, [list(map(str, e)) for e in events]


def replay(case):
    fsdirs = H.materialize()
    hist = [tuple(tuple(x) if isinstance(x, list) else x for x in ev) for ev in case['hist']]
    kind = 'unenc' if hist and hist[0][1] == 'U' else 'enc'
    s = H.make_initial(kind)
    v = []
    if case.get('mode') == 'session':
        before = s
        for ev, new, res in H.run_session(s, hist, fsdirs, one_object=bool(case.get('one_object'))):
            v += [p['what'] for p in transition_problems(before, res, ev) + state_problems(new)]
            before = new
    else:
        for i, ev in enumerate(hist):
            res = H.apply(s, ev, fsdirs, N=2 if i % 2 == 0 else 1)
            v += [p['what'] for p in transition_problems(s, res, ev) + state_problems(res.state)]
            s = res.state
    return {'violations': v, 'hist': case['hist']}


def main():
    global MENU_T
    t = common.tier()
    chk = common.Check(PID, 'model_checking')
    chk.unexercised_whats = {'command-failed'}   # a failing command is not what C07 is about: reported as 'could not exercise'
    H.materialize()
    MENU_T = MENU if t == 'thorough' else ['F1', 'F2', 'F3', 'F5']
    depth = 3 if t == 'quick' else 4
    try:
        states = transitions = 0
        stats_all = []
        for kind in ('enc', 'unenc'):
            d = depth if kind == 'enc' else depth + 1
            s0 = list(common.pmap(H.make_initial, [kind], procs=1, force=True))[0]
            stats, viol = H.bfs([s0], expand, d, label=kind)
            stats['repository'] = kind
            for smp in stats.pop('samples')[:2]:
                chk.sample({'repository': kind, 'history': smp})
            stats_all.append(stats)
            states += stats['states']
            transitions += stats['transitions']
            for sig, detail in viol:
                chk.violation(sig, detail)
        # long-lived Repository objects
        sess = []
        sdepth = 3
        for kind, menu in (('enc', ['F1', 'F2'] if t == 'quick' else ['F1', 'F2', 'F5']), ('unenc', ['F1', 'F2', 'F4', 'F5'])):
            for hst in session_histories(kind, sdepth if kind == 'enc' else sdepth + (0 if t == 'quick' else 1), menu):
                sess.append((kind, hst))
        for hst in narrow_histories(5 if t == 'quick' else 6):
            sess.append(('enc', hst))
        # the same histories on ONE Repository object that is unlocked again whenever the actor changes
        sess += [(k_, h_, True) for k_, h_ in list(sess) if k_ == 'enc' and len({e[1] for e in h_}) > 1]
        sess = common.shuffled(sess, 'sess')
        ncmd = 0
        for n, vs, evs in common.pmap(run_session_case, sess, chunksize=8, ordered=False):
            ncmd += n
            for sig, detail in vs:
                chk.violation(sig, detail)
        chk.sample({'session_history': [list(map(str, e)) for e in sess[0][1]]})
        chk.coverage.update({
            'states': states, 'transitions': transitions + ncmd, 'traces_validated_against_impl': transitions + len(sess),
            'evaluations': transitions + ncmd, 'distinct_nontrivial': states + len(sess),
            'rule': 'BFS over crash-free histories (fresh Repository per command; concurrency alternates 2/1 by depth) with '
                    'state/transition oracles on every transition; plus every history of length <= 3 with one long-lived '
                    'Repository per user; distinct = canonical states + distinct session histories',
            'bfs': stats_all, 'session_histories': len(sess), 'session_commands': ncmd,
        })
        chk.assumptions += ['8-byte fixed chunks; file sets with identical files, shared prefixes, repeated block',
                            'scrypt n=4 r=1']
    finally:
        H.cleanup_fixed_root()
    return chk.finish()


if __name__ == '__main__':
    sys.exit(common.run_main(main))
