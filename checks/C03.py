"""C03 - interrupted commands leave a consistent, usable repository.

(a) kill between backend mutations: E1 explores the completion orders of
    snapshot / delete / clean (<= d deviations); every prefix of every mutation
    sequence is a crash state (deduplicated by object map) and gets the recovery
    oracle.
(b) kill inside a local-backend mutation: the real Local.upload / upload_stream
    / delete run in a forked child that is killed at every interposed
    file-system step and at torn-write positions; the parent inspects the
    directory through a fresh Local instance.
(c) one permanent failure: every index of the command's backend call sequence
    raises (OSError and non-OSError); recovery oracle on what is left; the
    command must end with an exception, never hang."""
import os
import sys
from pathlib import Path

sys.path.insert(0, str(Path(__file__).resolve().parent.parent))
from mc import common

R = common.bootstrap()
from mc import dsched, explore, hist as H, world as W  # noqa: E402

PID = 'C03'


# ---------------------------------------------------------------- pre-states and recovery oracle
_PRE = {}


def pre_states():
    if os.getpid() not in _PRE:
        fsdirs = H.materialize()
        s0 = H.make_initial('enc')
        a = H.apply(s0, ('snap', 'A', 'F1'), fsdirs).state
        p1 = H.apply(a, ('snap', 'B', 'F2'), fsdirs).state
        # orphans of A's family: an earlier interrupted snapshot of F4
        r = H.apply(p1, ('snap', 'A', 'F4'), fsdirs).state
        del r.o[r.ledger[-1]['loc']]
        r.ledger.pop()
        p1o = r
        b3 = H.apply(a, ('snap', 'B', 'F3'), fsdirs).state
        p2 = H.apply(b3, ('snap', 'A', 'F2'), fsdirs).state      # ledger: A:F1, B:F3, A:F2
        p3 = H.apply(p2, ('snap', 'A', 'F4'), fsdirs).state      # + A:F4 (several exclusive chunks)
        u0 = H.make_initial('unenc')
        u1 = H.apply(H.apply(u0, ('snap', 'U', 'F1'), fsdirs).state, ('snap', 'U', 'F2'), fsdirs).state
        _PRE[os.getpid()] = {'p1': p1, 'p1o': p1o, 'p2': p2, 'p3': p3, 'u1': u1}
    return _PRE[os.getpid()]


SCENARIOS = {
    # name: (pre-state, event)
    'snap-new': ('p1', ('snap', 'A', 'F3')),
    'snap-known': ('p1', ('snap', 'A', 'F2')),
    'snap-C': ('p1', ('snap', 'C', 'F2')),
    'del-one': ('p2', ('del', 'A', (2,))),
    'del-two': ('p2', ('del', 'A', (0, 2))),
    'del-exclusive': ('p3', ('del', 'A', (3,))),
    'del-shared': ('p2', ('del', 'B', (1,))),
    'clean-orphans': ('p1o', ('clean', 'A')),
    'clean-other-family': ('p1o', ('clean', 'C')),
    'u-del': ('u1', ('del', 'U', (0,))),
    'u-snap': ('u1', ('snap', 'U', 'F3')),
}

_MEMO = {}


def recovery_problems(state, actor):
    """The repository must be consistent and fully usable in this state."""
    fsdirs = H.materialize()
    key = (common.h(sorted(state.o.items())), tuple(e['loc'] for e in state.ledger), actor)
    if key in _MEMO:
        return _MEMO[key]
    ps = []
    # listing + every visible snapshot complete and restorable
    for p in H.invariant_restorable(state, fsdirs):
        ps.append(p)
    users = [u for u in sorted(state.users)]
    # listings work for everybody
    for u in users:
        store = W.Store(state.o)

        async def go():
            repo = await W.a_open(store, H.user_obj(state, u))
            with W.captured():
                await repo.list_snapshots()
                await repo.list_files()
                await repo.close()

        try:
            W.run(go)
        except Exception as e:
            ps.append({'what': 'listing-fails', 'user': u, 'err': repr(e)[:200]})
    # a new snapshot succeeds and is restorable
    fs_new = 'F5'
    r = H.apply(state, ('snap', actor, fs_new), fsdirs)
    if r.exc is not None:
        ps.append({'what': 'new-snapshot-fails', 'err': repr(r.exc)[:200]})
    else:
        for p in H.invariant_restorable(r.state, fsdirs):
            ps.append(dict(p, after='new-snapshot'))
    # clean succeeds; afterwards the chunk area is exactly the referenced set
    s = state
    for u in users:
        if state.users[u]['kind'] == 'shared':
            continue
        r = H.apply(s, ('clean', u), fsdirs)
        if r.exc is not None:
            ps.append({'what': 'clean-fails', 'user': u, 'err': repr(r.exc)[:200]})
        s = r.state
    area, ref = H.chunk_area(s), H.referenced_names_all(s)
    if area != ref:
        ps.append({'what': 'clean-leaves-garbage', 'orphans': len(area - ref), 'missing': len(ref - area)})
    for p in H.invariant_restorable(s, fsdirs):
        ps.append(dict(p, after='clean'))
    _MEMO[key] = ps
    return ps


def crash_states(pre, ev, result, mutations):
    """All prefixes of the mutation sequence as States (ledger follows visibility)."""
    out = []
    o = dict(pre.o)
    new_entry = None
    if ev[0] == 'snap' and result is not None:
        new_entry = {'loc': result.location, 'name': result.name, 'owner': ev[1], 'fsid': ev[2], 'seq': pre.seq + 1,
                     'chunks': [d.hex() for d in result.chunks]}
    for k in range(len(mutations) + 1):
        if k > 0:
            kind, name, data = mutations[k - 1]
            if kind == 'del':
                o.pop(name, None)
            else:
                o[name] = data
        s = pre.clone()
        s.o = dict(o)
        s.ledger = [e for e in pre.ledger if e['loc'] in o]
        if new_entry is not None and new_entry['loc'] in o:
            s.ledger.append(new_entry)
        out.append((k, s))
    return out


# ---------------------------------------------------------------- (a) E1 runner
@explore.register
def run_cmd(params, prefix):
    fsdirs = H.materialize()
    pre_name, ev = SCENARIOS[params['sc']]
    pre = pre_states()[pre_name]
    N, be = params['N'], params['be']
    backend = W.MemBackend if be == 'plain' else W.AMemBackend
    store = W.Store(pre.o)
    W.set_random('c03-' + params['sc'])
    import datetime as dt
    W.set_clock(dt.datetime(2024, 6, 1))
    holder = {}

    async def go():
        repo = await W.a_open(store, H.user_obj(pre, ev[1]), N=N, backend=backend)
        m0 = len(store.mutations)
        with W.captured():
            if ev[0] == 'snap':
                r = await repo.snapshot(paths=[fsdirs[ev[2]]])
            elif ev[0] == 'del':
                r = await repo.delete_snapshots([pre.ledger[i]['name'] for i in ev[2]], confirm=False)
            else:
                r = await repo.clean()
            await repo.close()
        return r

    x = dsched.run_one(lambda loop, s: go(), prefix, horizon=8000, want_env=(be == 'async'))
    out = {'points': x.points, 'err': None, 'viol': []}
    sig0 = {'part': 'kill-between-mutations', 'scenario': params['sc']}
    muts = list(store.mutations)
    out['order'] = explore.canon_order([(k, n) for k, n, _ in muts])
    if x.err is not None:
        out['err'] = 'hang' if isinstance(x.err, dsched.Hang) else ('capped' if isinstance(x.err, dsched.Horizon) else 'diverged')
        out['errmsg'] = str(x.err)[:200]
        if out['err'] == 'hang':
            out['viol'].append((dict(sig0, what='hang'), {'params': params}))
        out['outcome'] = out['obs'] = ('ERR', out['err'])
        return out
    if x.exc is not None:
        out['viol'].append((dict(sig0, what='command-failed', exc=type(x.exc).__name__), {'params': params, 'err': repr(x.exc)[:300]}))
        out['outcome'] = out['obs'] = ('EXC', type(x.exc).__name__)
        return out
    nbad = 0
    ncrash = 0
    for k, s in crash_states(pre, ev, x.result, muts):
        ncrash += 1
        ps = recovery_problems(s, ev[1])
        if ps:
            nbad += 1
            out['viol'].append((dict(sig0, what=ps[0]['what']),
                                {'params': params, 'crash_after_mutations': k,
                                 'mutations': [(a, b) for a, b, _ in muts], 'problem': ps[0]}))
            break
    out['outcome'] = ('OK', len(muts), nbad)
    out['obs'] = (out['outcome'], tuple((k, n) for k, n, _ in muts))
    out['crash_states'] = ncrash
    out['states'] = {hash((out['order'], k)) for k in range(len(muts) + 1)}
    out['edges'] = set()
    return out


# ---------------------------------------------------------------- (c) single permanent failure
class BackendGone(OSError):
    pass


class BackendBroken(Exception):
    pass


def run_fault_case(args):
    sc, exc_kind, N = args
    fsdirs = H.materialize()
    pre_name, ev = SCENARIOS[sc]
    pre = pre_states()[pre_name]
    base = H.apply(pre, ev, fsdirs, N=N)
    ncalls = len(base.calls)
    vs = []
    n = 0
    sig0 = {'part': 'permanent-failure', 'scenario': sc, 'exc_kind': exc_kind}
    # H.apply counts calls per Store: index i over the whole command incl. unlock
    for i in range(ncalls):
        E = BackendGone if exc_kind == 'oserror' else BackendBroken
        target = base.calls[i]

        def fault(kind, name, idx, i=i):
            # the i-th backend interaction of the command fails for good (and so does every retry of it)
            if idx == i or (kind, name) == fault.hit:
                fault.hit = (kind, name)
                raise E(f'{kind} {name}')

        fault.hit = None
        # listing calls have idx -1: address them by position in the call log instead
        if target[0] in ('list', 'clean'):
            def fault(kind, name, idx, target=target):  # noqa: F811
                if (kind, name) == target:
                    raise E(f'{kind} {name}')
        n += 1
        try:
            r = H.apply(pre, ev, fsdirs, N=N, fault=fault)
        except dsched.Hang as e:
            vs.append((dict(sig0, what='hang'), {'scenario': sc, 'failing_call': list(target), 'index': i, 'msg': str(e)[:200]}))
            continue
        if r.exc is None:
            # tolerated only if the failing call was never reached (call orders differ) - then state must be complete
            pass
        st = r.state
        st.hist = []
        if ev[0] == 'del' and r.exc is not None:
            st.ledger = [e for e in pre.ledger if e['loc'] in st.o]
        for p in recovery_problems(st, ev[1])[:1]:
            vs.append((dict(sig0, what=p['what']), {'scenario': sc, 'failing_call': list(target), 'index': i, 'problem': p,
                                                    'command_exc': repr(r.exc)[:120]}))
    return n, vs


def run_fault_session_case(args):
    """(c2) library-style use: the command with the permanently failing call and the follow-up commands run on
    ONE Repository object (same slots, same caches, same event loop). After the failure the object must still
    work: a new snapshot and clean succeed and leave a consistent repository."""
    sc, exc_kind, N = args
    fsdirs = H.materialize()
    pre_name, ev = SCENARIOS[sc]
    pre = pre_states()[pre_name]
    actor = ev[1]
    follow = [('snap', actor, 'F5')] + ([('clean', actor)] if pre.users[actor]['kind'] != 'shared' else [])
    # warm-up listing by the same object first, so that the failing command is not the object's first use
    base = H.run_session(pre, [ev], fsdirs, N=N)
    ncalls = len(base[0][2].calls)
    vs = []
    n = 0
    sig0 = {'part': 'permanent-failure-same-object', 'scenario': sc, 'exc_kind': exc_kind}
    E = BackendGone if exc_kind == 'oserror' else BackendBroken
    for i in range(ncalls):
        target = base[0][2].calls[i]

        def fault_for(pos, c0, i=i, target=target):
            if pos != 0:
                return None
            hit = [None]

            def fault(kind, name, idx):
                if target[0] in ('list', 'clean'):
                    if (kind, name) == tuple(target):
                        raise E(f'{kind} {name}')
                    return
                if idx == c0 + i or (kind, name) == hit[0]:
                    hit[0] = (kind, name)
                    raise E(f'{kind} {name}')
            return fault

        n += 1
        detail = {'scenario': sc, 'failing_call': list(target), 'index': i, 'N': N}
        try:
            steps = H.run_session(pre, [ev] + follow, fsdirs, N=N, fault_for=fault_for)
        except (dsched.Hang, dsched.Horizon) as e:
            vs.append((dict(sig0, what='hang-after-failed-command'), dict(detail, msg=str(e)[:200])))
            continue
        first = steps[0][2]
        for (fev, fstate, fres) in steps[1:]:
            if fres.exc is not None:
                vs.append((dict(sig0, what=f'{fev[0]}-fails-after-failed-command'), dict(detail, err=repr(fres.exc)[:200],
                                                                                        command_exc=repr(first.exc)[:120])))
                break
        else:
            st = steps[-1][1]
            if ev[0] == 'del' and first.exc is not None:
                # the failed deletion may have removed some of its snapshots already
                st.ledger = [e for e in st.ledger if e['loc'] in st.o]
            if ev[0] in ('snap', 'snapargs') and first.exc is not None:
                st.ledger = [e for e in st.ledger if e['loc'] in st.o]
            probs = H.invariant_restorable(st, fsdirs)
            if follow[-1][0] == 'clean':
                area, ref = H.chunk_area(st), H.referenced_names_all(st)
                if len(st.users) == 1 and area != ref:
                    probs.append({'what': 'clean-leaves-garbage', 'orphans': len(area - ref), 'missing': len(ref - area)})
                elif ref - area:
                    probs.append({'what': 'referenced-chunk-missing', 'missing': len(ref - area)})
            for p_ in probs[:1]:
                vs.append((dict(sig0, what=p_['what']), dict(detail, problem=p_, command_exc=repr(first.exc)[:120])))
    return n, vs


# ---------------------------------------------------------------- (b) kill inside a local-backend mutation
def _local_child(root, op, name, payload, kill_at, chunk_size):
    """Runs in a forked child: perform one Local operation, die at file-system step `kill_at`.
    Steps are taken below the adapter (mc.fsteps: every os/io call that touches the repository directory),
    so they do not depend on how the adapter spells its file handling; a write is torn in two."""
    import io
    import replicat.backends.local as L
    from mc.fsteps import FSteps

    counter = {'n': 0}

    def step(label, path):
        counter['n'] += 1
        if counter['n'] == kill_at:
            os._exit(77)

    be = L.Local(root)
    with FSteps(root, step, reads=False):
        if op == 'upload':
            be.upload(name, payload)
        elif op == 'upload_stream':
            be.upload_stream(name, io.BytesIO(payload), len(payload), chunk_size)
        elif op == 'delete':
            be.delete(name)
        elif op == 'clean':
            be.clean()
    os._exit(0)


def run_local_case(args):
    op, name, old, new, chunk_size = args
    import shutil
    import replicat.backends.local as L
    sc = H.worker_scratch()
    vs = []
    n = 0
    kill_at = 1
    others = {'data/ab/cd/keep-1': b'keep', 'snapshots/ab/keep-2': b'keep2'}
    sig0 = {'part': 'kill-inside-local-mutation', 'op': op, 'had_old': old is not None}
    while True:
        root = sc.sub()
        be0 = L.Local(str(root))
        for k, v in others.items():
            be0.upload(k, v)
        if old is not None:
            be0.upload(name, old)
        if op == 'clean':
            # directories emptied by earlier deletions: clean removes them, whatever is left must stay intact
            for dname in ('data/zz/yy', 'data/ab/empty', 'snapshots/qq'):
                (root / dname).mkdir(parents=True, exist_ok=True)
        pid = os.fork()
        if pid == 0:
            try:
                _local_child(str(root), op, name, new, kill_at, chunk_size)
            finally:
                os._exit(0)
        _, status = os.waitpid(pid, 0)
        code = os.waitstatus_to_exitcode(status)
        n += 1
        be = L.Local(str(root))
        listed = sorted(be.list_files(''))
        model_names = set(others)
        # the object is either in its old or in its new state
        allowed = []
        if op == 'clean':
            allowed = [old]
        elif op == 'delete':
            allowed = [old, None]
        else:
            allowed = [old, new]
        problems = []
        extra = [x for x in listed if x not in model_names and x != name]
        if extra:
            problems.append({'what': 'partial-object-listed', 'names': extra[:2]})
        for pref in ('data/', 'snapshots/', 'data/ab/cd/'):
            sub = sorted(be.list_files(pref))
            if [x for x in sub if x not in model_names and x != name]:
                problems.append({'what': 'partial-object-listed', 'prefix': pref})
        ex = be.exists(name)
        cur = None
        if ex:
            try:
                cur = (root / name).read_bytes()
            except FileNotFoundError:
                problems.append({'what': 'exists-but-not-downloadable'})
        if cur not in allowed:
            problems.append({'what': 'torn-object-visible', 'len': None if cur is None else len(cur)})
        if (name in listed) != ex:
            problems.append({'what': 'listing-disagrees-with-exists'})
        for k, v in others.items():
            if (root / k).read_bytes() != v:
                problems.append({'what': 'other-object-damaged'})
        if code == 0 and kill_at > 0:
            # operation completed: must be in the new state
            want = None if op == 'delete' else old if op == 'clean' else new
            if cur != want:
                problems.append({'what': 'completed-but-wrong'})
        for p in problems[:1]:
            vs.append((dict(sig0, what=p['what']), {'op': op, 'name': name, 'kill_at_step': kill_at, 'problem': p,
                                                    'old_len': None if old is None else len(old), 'new_len': len(new or b'')}))
        shutil.rmtree(root, ignore_errors=True)
        if code == 0:
            break
        kill_at += 1
        if kill_at > 200:
            vs.append((dict(sig0, what='too-many-steps'), {}))
            break
    return n, vs


# ---------------------------------------------------------------- (d) two concurrent local uploads of one object
@explore.register
def run_local_pair(params, prefix):
    """Two threads upload the same object name through the real Local adapter; every file-system step is
    a scheduling point. After every step the object must be absent/old or exactly one of the payloads."""
    import io
    import tempfile
    import types
    import backoff._sync
    import replicat.backends.local as L
    backoff._sync.time = types.SimpleNamespace(sleep=lambda s_: None)
    sc = H.worker_scratch()
    root = sc.sub()
    name = 'data/ab/cd/chunk-1'
    payloads = [bytes([65]) * params['len'], (bytes([65]) if params['same'] else bytes([66])) * params['len']]
    old = b'OLD-content-longer-than-new-' * 2 if params['old'] else None
    if old is not None:
        L.Local(str(root)).upload(name, old)
    allowed = {None if old is None else old, payloads[0], payloads[1]}
    BasePath = type(Path())
    bad = []

    def observe(label):
        p = root / name
        try:
            cur = p.read_bytes()
        except FileNotFoundError:
            cur = None
        if cur not in allowed and not bad:
            bad.append((label, None if cur is None else len(cur)))

    def step(label, path=None):
        s_ = dsched.cur()
        observe('before ' + label)
        if s_ is not None and not s_.teardown and not s_.aborting:
            s_.point('fs:' + label)

    # every os/io call below the adapter that touches the repository directory is a scheduling point
    # (mc.fsteps: independent of how the adapter spells its file handling; writes are torn in two)
    from mc.fsteps import FSteps
    fsteps = FSteps(root, step, reads=True)
    fsteps.install()
    excs = {}
    reads = {}
    try:
        be = L.Local(str(root))

        def worker(i):
            def run():
                try:
                    if params['ops'][i] == 'upload':
                        be.upload(name, payloads[i])
                    elif params['ops'][i] == 'upload_stream':
                        be.upload_stream(name, io.BytesIO(payloads[i]), len(payloads[i]), params['chunk'])
                    elif params['ops'][i] == 'download':
                        reads[i] = be.download(name)
                    else:
                        dst = io.BytesIO(b'stale' * 20)
                        dst.seek(0)
                        be.download_stream(name, dst, params['chunk'])
                        reads[i] = dst.getvalue()
                except FileNotFoundError as e:
                    if params['ops'][i].startswith('download') and old is None:
                        reads[i] = None      # the object did not exist yet: a plain map would say the same
                    else:
                        excs[i] = e
                except Exception as e:
                    excs[i] = e
            return run

        async def go():
            s_ = dsched.cur()
            recs = [s_.spawn(worker(i), f'uploader{i}') for i in (0, 1)]
            s_.block_until(lambda: all(r.done for r in recs), 'join')
            return True

        x = dsched.run_one(lambda loop, s_: go(), prefix, horizon=3000)
    finally:
        fsteps.uninstall()
    observe('end')
    final = None
    try:
        final = (root / name).read_bytes()
    except FileNotFoundError:
        pass
    leftovers = [f for d, _, fs in os.walk(root) for f in fs if f.endswith('.tmp')]
    import shutil
    shutil.rmtree(root, ignore_errors=True)
    out = {'points': x.points, 'err': None, 'viol': [], 'order': hash(tuple(p[1] for p in x.points))}
    sig0 = {'part': 'concurrent-local-uploads', 'same_payload': params['same']}
    if x.err is not None:
        out['err'] = 'hang' if isinstance(x.err, dsched.Hang) else 'capped' if isinstance(x.err, dsched.Horizon) else 'diverged'
        out['errmsg'] = str(x.err)[:200]
        out['outcome'] = out['obs'] = ('ERR', out['err'])
        return out
    if bad:
        out['viol'].append((dict(sig0, what='torn-object-visible'), {'params': params, 'when': bad[0][0], 'visible_length': bad[0][1]}))
    writers = [i for i in (0, 1) if params['ops'][i].startswith('upload')]
    for i, got in reads.items():
        ok_values = {old} | {payloads[j] for j in writers}
        if got not in ok_values:
            out['viol'].append((dict(sig0, what='reader-saw-neither-old-nor-new-object', reader=params['ops'][i]),
                                {'params': params, 'got_length': None if got is None else len(got),
                                 'old_length': None if old is None else len(old)}))
    if excs:
        out['viol'].append((dict(sig0, what='upload-failed', exc=type(list(excs.values())[0]).__name__),
                            {'params': params, 'err': repr(list(excs.values())[0])[:160]}))
    elif final not in [payloads[j] for j in writers]:
        out['viol'].append((dict(sig0, what='final-object-wrong'), {'params': params, 'len': None if final is None else len(final)}))
    if leftovers and not excs:
        out['viol'].append((dict(sig0, what='temporary-file-left-behind'), {'params': params, 'files': leftovers}))
    out['outcome'] = ('OK' if not out['viol'] else 'BAD', final == payloads[0], final == payloads[1])
    out['obs'] = (out['outcome'], tuple(p[1] for p in x.points))
    return out


def replay(case):
    if 'params' in case and 'ops' in case['params']:
        r = run_local_pair(case['params'], case.get('choices', []))
        return {'violations': [v[0] for v in r['viol']], 'outcome': r['outcome']}
    if 'params' in case:
        r = run_cmd(case['params'], case.get('choices', []))
        return {'violations': [v[0] for v in r['viol']], 'outcome': r['outcome']}
    if 'op' in case:
        return {'violations': ['see kill_at_step; re-run ./check C03'], 'case': case}
    if 'N' in case:
        n, vs = run_fault_session_case((case['scenario'], 'oserror', case['N']))
        n2, vs2 = run_fault_session_case((case['scenario'], 'other', case['N']))
        return {'violations': [v[0] for v in vs + vs2]}
    n, vs = run_fault_case((case['scenario'], 'oserror', 2))
    n2, vs2 = run_fault_case((case['scenario'], 'other', 2))
    return {'violations': [v[0] for v in vs + vs2]}


def main():
    t = common.tier()
    chk = common.Check(PID, 'fault_enumeration')
    H.materialize()
    try:
        # (a)
        tot = explore.Agg()
        per = []
        plan = []
        for sc in SCENARIOS:
            for N in ((2,) if t == 'quick' else (1, 2, 3)):
                # coroutine backend: completion orders exhaustively (free choices), plus d other deviations
                plan.append(({'sc': sc, 'N': N, 'be': 'async', '_free': ['env-complete']}, 0 if t == 'quick' else 1))
                # plain backend: executor threads race at the backend entry
                plan.append(({'sc': sc, 'N': N, 'be': 'plain'}, 1 if t == 'quick' else 2))
        for params, bound in plan:
            agg, info = explore.explore(run_cmd, params, bound)
            if not info['deterministic_replay']:
                chk.harness_error(f'replay of {params} not deterministic')
            for sig, detail in agg.viol:
                chk.violation(sig, detail)
            for k, v in agg.errs.items():
                if k in ('capped', 'diverged'):
                    chk.harness_error(f'{k} in {params}: {v[2]}')
            per.append({'scenario': params, 'bound': bound, 'executions': agg.executions,
                        'mutation_orders': len(agg.orders), 'crash_states': len(agg.states)})
            tot.merge(agg)
        chk.sample({'part': 'a', 'scenario': per[0]})
        # (c)
        fcases = [(sc, ek, N) for sc in SCENARIOS for ek in ('oserror', 'other') for N in ((2,) if t == 'quick' else (1, 2))]
        nfault = 0
        for n, vs in common.pmap(run_fault_case, common.shuffled(fcases, 'f'), ordered=False):
            nfault += n
            for sig, detail in vs:
                chk.violation(sig, detail)
        chk.sample({'part': 'c', 'case': fcases[0]})
        # (c2) the same Repository object goes on after the failed command
        scases = [(sc, ek, N) for sc in SCENARIOS for ek in ('oserror', 'other') for N in ((1, 2) if t == 'quick' else (1, 2, 3))]
        nsess = 0
        for n, vs in common.pmap(run_fault_session_case, common.shuffled(scases, 's'), ordered=False):
            nsess += n
            for sig, detail in vs:
                chk.violation(sig, detail)
        chk.coverage['c2_same_object_fault_runs'] = nsess
        # (b)
        sizes = [0, 1, 5, 16, 17] if t == 'quick' else [0, 1, 2, 5, 15, 16, 17, 33, 64]
        lcases = []
        for op in ('upload', 'upload_stream'):
            for name in ('data/ab/cd/ef-0123', 'snapshots/ab/cdef-99', 'config'):
                for new_len in sizes:
                    for old in (None, b'OLD-CONTENT-LONGER-THAN-NEW-' * 3, b'o'):
                        lcases.append((op, name, old, bytes(range(new_len)), 8))
        for name in ('data/ab/cd/ef-0123', 'snapshots/ab/cdef-99'):
            lcases.append(('delete', name, b'OLD', None, 8))
            lcases.append(('delete', name, None, None, 8))
            lcases.append(('clean', name, b'OLD', None, 8))
        nlocal = 0
        for n, vs in common.pmap(run_local_case, common.shuffled(lcases, 'l'), ordered=False, chunksize=2):
            nlocal += n
            for sig, detail in vs:
                chk.violation(sig, detail)
        chk.sample({'part': 'b', 'case': [lcases[0][0], lcases[0][1], len(lcases[0][3])]})
        # (d)
        totd = explore.Agg()
        for ops in (('upload_stream', 'upload_stream'), ('upload', 'upload_stream'), ('upload', 'upload'),
                    ('upload_stream', 'download_stream'), ('upload', 'download'), ('upload_stream', 'download'),
                    ('upload', 'download_stream')):
            for same in (True, False):
                for old in (False, True):
                    if ops[1].startswith('download') and same:
                        continue
                    params = {'ops': list(ops), 'same': same, 'old': old, 'len': 24 if not ops[1].startswith('download') else 7,
                              'chunk': 16}
                    agg, info = explore.explore(run_local_pair, params, 2 if t == 'quick' else 3)
                    if not info['deterministic_replay']:
                        chk.harness_error(f'replay of {params} not deterministic')
                    for sig, detail in agg.viol:
                        chk.violation(sig, detail)
                    for k, v in agg.errs.items():
                        if k in ('capped', 'diverged'):
                            chk.harness_error(f'{k} in {params}: {v[2]}')
                    totd.merge(agg)
        chk.sample({'part': 'd', 'ops': ['upload_stream', 'upload_stream'], 'same_payload': True, 'deviations': 2})
        chk.coverage.update({
            'evaluations': tot.executions + nfault + nlocal + totd.executions,
            'd_executions': totd.executions, 'd_interleavings': len(totd.orders),
            'distinct_nontrivial': len(tot.states) + nfault + nlocal,
            'rule': '(a) every prefix of every mutation sequence of every explored completion order; distinct = distinct '
                    '(mutation order, prefix length); (b) every interposed file-system step and torn write of each local '
                    'operation x name x old/new payload; (c) every backend call index x 2 exception kinds',
            'a_executions': tot.executions, 'a_mutation_orders': len(tot.orders), 'a_crash_points': len(tot.states),
            'a_by_deviations': {str(k): v for k, v in tot.by_dev.items()}, 'a_scenarios': per,
            'b_kill_points': nlocal, 'b_cases': len(lcases), 'c_fault_runs': nfault, 'c_cases': len(fcases),
        })
        chk.assumptions += ['kill = the process stops between two backend mutations / file-system steps; user-space buffers '
                            'are lost, what reached the kernel stays (no power loss)',
                            'a permanent failure makes the call and every retry of the same call fail']
    finally:
        H.cleanup_fixed_root()
    return chk.finish()


if __name__ == '__main__':
    sys.exit(common.run_main(main))
