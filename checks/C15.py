"""C15 - restore and the listings select exactly what the filters and timestamps say.

E2-style enumeration of histories: <= 3 snapshots over paths {a, b} whose
versions appear / change / disappear, logical timestamps with and without a zero
microsecond field, taken in chronological and in reverse order; for every
history every snapshot filter x file filter (restore), and the listings under
column selections. Reference: newest-matching-snapshot selection (5 lines)."""
import datetime as dt
import hashlib
import itertools
import os
import re
import shutil
import sys
from pathlib import Path

sys.path.insert(0, str(Path(__file__).resolve().parent.parent))
from mc import common

R = common.bootstrap()
from mc import dsched, hist as H, world as W  # noqa: E402

dsched.DEFAULT_RUN_HORIZON[0] = 5_000_000
from replicat.utils import FileListColumn as FC, SnapshotListColumn as SC, bytes_to_human  # noqa: E402
from replicat import exceptions as RX  # noqa: E402

PID = 'C15'
FULL = [False]
V = {'a1': b'A-version-one....', 'a2': b'A-version-two-longer......', 'b1': b'B1', 'b2': b'B-two-' * 200, 'a0': b'', 'b0': b''}
FILE_STATES = [('a1', None), ('a1', 'b1'), ('a2', 'b1'), (None, 'b2'), ('a2', 'b2'), ('a0', None), ('a0', 'b0')]   # a0/b0: empty versions
SETTINGS = {
    'unenc': W.default_settings(False, chunking={'min_length': 8, 'max_length': 16}, hashing={'name': 'sha2', 'bits': 256}),
    'enc': W.default_settings(True, chunking={'min_length': 8, 'max_length': 16}, hashing={'name': 'blake2b', 'length': 24}),
}
_INIT = {}


def initialised(kind):
    if kind not in _INIT:
        st = W.Store()
        W.set_random('c15-' + kind)
        key = W.run(W.a_init, st, SETTINGS[kind], b'pw')
        _INIT[kind] = (dict(st.o), key)
    return _INIT[kind]


def digest_fn(kind):
    if kind == 'unenc':
        return lambda d: hashlib.sha256(d).digest()
    return lambda d: hashlib.blake2b(d, digest_size=24).digest()


def times(k, order, micro):
    base = dt.datetime(2024, 3, 1, 12, 0, 0)
    ts = []
    for i in range(k):
        t = base + dt.timedelta(seconds=i * 37)
        if micro == 'same-second':
            # distinct timestamps inside one second (the displayed precision)
            ts.append(base.replace(microsecond=1000 * (i + 1)))
            continue
        us = {'zero': 0, 'nonzero': 1000 + i, 'mixed': 0 if i % 2 == 0 else 250000}[micro]
        ts.append(t.replace(microsecond=us))
    return ts if order == 'chrono' else ts[::-1]


def parse_rows(text):
    return [tuple(c.strip() for c in line.split('\t')) for line in text.splitlines() if line.strip()]


def run_history(args):
    kind, states, order, micro, listing = args
    sc = H.worker_scratch()
    root = sc.sub()
    src = root / 'src'
    src.mkdir()
    objects, key = initialised(kind)
    st = W.Store(objects)
    user = W.User('u', b'pw', key) if key else None
    Hf = digest_fn(kind)
    W.set_random(f'c15-{args!r}')
    ledger = []   # dict(name, ts(datetime), files{path:(bytes, meta)})
    vs = []
    sig0 = {'repo': kind}
    detail0 = {'history': [list(s) for s in states], 'order': order, 'micro': micro, 'repo': kind}
    nchecks = [0]

    def bad(what, **kw):
        vs.append((dict(sig0, what=what), dict(detail0, **kw)))

    async def go():
        tss = times(len(states), order, micro)
        for i, (sa, sb) in enumerate(states):
            for nm, ver in (('a', sa), ('b', sb)):
                p = src / nm
                if ver is None:
                    if p.exists():
                        p.unlink()
                else:
                    p.write_bytes(V[ver])
                    ns = (1_650_000_000 + 1000 * i + (0 if nm == 'a' else 7)) * 10**9 + 5
                    os.utime(p, ns=(ns + 10**9, ns))
            files = {}
            for nm in ('a', 'b'):
                p = src / nm
                if p.exists():
                    s_ = os.stat(p)
                    files[str(p)] = (p.read_bytes(), s_.st_mtime_ns, s_.st_atime_ns, s_.st_ctime_ns)
            W.Clock.now = tss[i]
            W.Clock.step = dt.timedelta(0)
            repo = await W.a_open(st, user, N=2)
            with W.captured():
                r = await repo.snapshot(paths=[src], note=f'note-{i}' if i % 2 == 0 else None)
                await repo.close()
            ledger.append({'name': r.name, 'ts': tss[i], 'files': files, 'note': f'note-{i}' if i % 2 == 0 else None,
                           'loc': r.location})

        # ---- restore under every snapshot filter x file filter
        names = [e['name'] for e in ledger]
        sfilters = [('none', None), ('no-match', '^zzzz')]
        for e in ledger:
            sfilters.append(('one', '^' + e['name'] + '$'))
        if len(names) >= 2:
            sfilters.append(('alternation', f'^{names[0]}|^{names[-1]}'))
            sfilters.append(('prefix', '^' + names[1][:6]))
        # incl. patterns in which white space is significant (nothing here has a space in its path: they select nothing)
        ffilters = [('none', None), ('a$', r'a$'), ('[ab]$', r'[ab]$'), ('no-match', r'nomatch$'), ('trailing-space', 'a$ '),
                    ('space-only', ' '), ('leading-space', ' a$')]
        rs, rf = (sfilters, ffilters) if (len(states) < 3 or FULL[0]) else ([sfilters[0], sfilters[2], sfilters[-2], sfilters[-1]], ffilters[:2])
        if not any(f[0] == 'trailing-space' for f in rf):
            rf = list(rf) + [f for f in ffilters if f[0] in ('trailing-space', 'space-only', 'leading-space')]
        for sname, sre in rs:
            for fname, fre in rf:
                if fname in ('trailing-space', 'space-only', 'leading-space') and sname != 'none':
                    continue     # white-space handling does not depend on the snapshot filter: once per history
                nchecks[0] += 1
                target = root / f'out-{nchecks[0]}'
                repo = await W.a_open(W.Store(st.o), user, N=2)
                with W.captured():
                    res = await repo.restore(snapshot_regex=sre, file_regex=fre, path=target)
                    await repo.close()
                # reference: newest matching snapshot containing the path
                want = {}
                for e in sorted(ledger, key=lambda e: e['ts']):
                    if sre is not None and re.search(sre, e['name']) is None:
                        continue
                    for p, v in e['files'].items():
                        if fre is not None and re.search(fre, p) is None:
                            continue
                        want[p] = v
                got = W.read_tree(target)
                want_t = {W.restore_path(target, p): (v[0], v[1]) for p, v in want.items()}
                if got != want_t:
                    bad('restore-selection', snapshot_filter=sname, file_filter=fname,
                        got={Path(k).name: v[0][:12] for k, v in got.items()},
                        want={Path(k).name: v[0][:12] for k, v in want_t.items()})
                if sorted(res.files) != sorted(want):
                    bad('restore-returned-files', snapshot_filter=sname, file_filter=fname)
                shutil.rmtree(target, ignore_errors=True)
        if not listing:
            return
        # ---- listings
        newest_first = sorted(ledger, key=lambda e: e['ts'], reverse=True)

        def snap_row(e, cols):
            size = sum(len(v[0]) for v in e['files'].values())
            vals = {SC.NAME: e['name'], SC.NOTE: e['note'] if e['note'] is not None else '--',
                    SC.TIMESTAMP: e['ts'].isoformat(sep=' ', timespec='seconds'), SC.FILE_COUNT: str(len(e['files'])),
                    SC.SIZE: bytes_to_human(size)}
            return tuple(vals[c] for c in cols)

        scols = [None] + [list(c) for k in ((1, 2) if FULL[0] else (1,)) for c in itertools.combinations(list(SC), k)] + [list(SC)[::-1]]
        for cols in scols:
            for sname, sre in sfilters[:3] + sfilters[-1:]:
                nchecks[0] += 1
                repo = await W.a_open(W.Store(st.o), user, N=2)
                with W.captured() as (o, e_):
                    await repo.list_snapshots(snapshot_regex=sre, header=False, columns=cols)
                    await repo.close()
                eff = cols or [SC.NAME, SC.NOTE, SC.TIMESTAMP, SC.FILE_COUNT, SC.SIZE]
                want_rows = [snap_row(e, eff) for e in newest_first if sre is None or re.search(sre, e['name'])]
                if parse_rows(o.getvalue()) != want_rows:
                    bad('list-snapshots-rows', columns=[str(c) for c in eff], snapshot_filter=sname,
                        got=parse_rows(o.getvalue())[:3], want=want_rows[:3])

        def utc(ns):
            return dt.datetime.fromtimestamp(ns / 1e9, tz=dt.timezone.utc).replace(tzinfo=None).isoformat(sep=' ', timespec='seconds')

        def file_rows(cols, sre, fre):
            rows = []
            for e in newest_first:
                if sre is not None and re.search(sre, e['name']) is None:
                    continue
                block = []
                for p, (data, mt, at, ct) in e['files'].items():
                    if fre is not None and re.search(fre, p) is None:
                        continue
                    vals = {FC.SNAPSHOT_NAME: e['name'], FC.SNAPSHOT_DATE: e['ts'].isoformat(sep=' ', timespec='seconds'),
                            FC.PATH: p, FC.SIZE: bytes_to_human(len(data)), FC.DIGEST: Hf(data).hex(),
                            FC.MTIME: utc(mt), FC.CTIME: utc(ct)}   # atime changes when the snapshot reads the file: not modelled
                    block.append(tuple(vals.get(c, '*') for c in cols))
                rows.append(sorted(block))
            return rows

        fcols_menu = [None] + [list(c) for k in ((1, 2) if FULL[0] else (1,)) for c in itertools.combinations(
            [c for c in FC if c is not FC.CHUNK_COUNT], k)]
        for cols in fcols_menu:
            for sname, sre in (sfilters[0], sfilters[-1]):
                for fname, fre in ffilters[:2]:
                    nchecks[0] += 1
                    repo = await W.a_open(W.Store(st.o), user, N=2)
                    with W.captured() as (o, e_):
                        await repo.list_files(snapshot_regex=sre, file_regex=fre, header=False, columns=cols)
                        await repo.close()
                    eff = cols or [FC.SNAPSHOT_DATE, FC.PATH, FC.CHUNK_COUNT, FC.SIZE, FC.MTIME]
                    got = parse_rows(o.getvalue())
                    want_blocks = file_rows(eff, sre, fre)
                    # compare block-wise (order inside one snapshot is not specified); chunk counts are not modelled
                    flat = [r for b in want_blocks for r in b]
                    ok = len(got) == len(flat)
                    pos = 0
                    for b in want_blocks:
                        seg = sorted(tuple('*' if eff[i] in (FC.CHUNK_COUNT, FC.ATIME) else v for i, v in enumerate(r))
                                     for r in got[pos:pos + len(b)])
                        if seg != b:
                            ok = False
                        pos += len(b)
                    if not ok:
                        bad('list-files-rows', columns=[str(c) for c in eff], snapshot_filter=sname, file_filter=fname,
                            got=got[:3], want=flat[:3])
        # ---- every printed name designates that snapshot for the filter and for delete
        repo = await W.a_open(W.Store(st.o), user, N=2)
        with W.captured() as (o, e_):
            await repo.list_snapshots(header=False, columns=[SC.NAME])
            await repo.list_files(header=False, columns=[FC.SNAPSHOT_NAME, FC.PATH])
            await repo.close()
        printed = {r[0] for r in parse_rows(o.getvalue())}
        if printed != set(names):
            bad('printed-names-are-not-the-snapshot-names', printed=sorted(printed)[:3], names=sorted(names)[:3])
        for nm in sorted(printed):
            nchecks[0] += 1
            st2 = W.Store(st.o)
            repo = await W.a_open(st2, user, N=2)
            with W.captured():
                try:
                    await repo.delete_snapshots([nm], confirm=False)
                except RX.ReplicatError as ex:
                    bad('printed-name-rejected-by-delete', name=nm[:16], err=str(ex)[:80])
                await repo.close()
            gone = [e for e in ledger if e['loc'] not in st2.o]
            if [e['name'] for e in gone] != [nm] and nm in names:
                bad('delete-by-printed-name-removed-something-else')

    try:
        W.run(go)
    except Exception as e:
        bad('history-failed', err=repr(e)[:300])
    shutil.rmtree(root, ignore_errors=True)
    return nchecks[0], vs


def replay(case):
    args = (case['repo'], [tuple(s) for s in case['history']], case['order'], case['micro'], True)
    n, vs = run_history(args)
    return {'violations': [v[0] for v in vs]}


def main():
    t = common.tier()
    FULL[0] = (t == 'thorough')
    chk = common.Check(PID, 'model_checking')
    hists = []
    for k in (1, 2, 3):
        menu = FILE_STATES if (k < 3 or t == 'thorough') else [FILE_STATES[i] for i in (0, 2, 3, 5)]
        for states in itertools.product(menu, repeat=k):
            hists.append(states)
    cases = []
    for kind in ('unenc', 'enc'):
        for states in hists:
            k = len(states)
            for order in (('chrono',) if k == 1 else ('chrono', 'reverse')):
                for micro in ('zero', 'nonzero', 'mixed', 'same-second'):
                    if t == 'quick' and k == 2 and micro in ('zero', 'nonzero') and kind == 'enc':
                        continue
                    if t == 'quick' and k == 3 and (micro in ('nonzero', 'same-second') or kind == 'enc' and order == 'reverse'):
                        continue
                    listing = (k <= 2 and micro in ('mixed', 'same-second')) if t == 'quick' else (k <= 2 or micro in ('mixed', 'same-second'))
                    cases.append((kind, states, order, micro, listing))
    n = 0
    for k, vs in common.pmap(run_history, common.shuffled(cases, 'c15'), ordered=False, chunksize=2):
        n += k
        for sig, d in vs:
            chk.violation(sig, d)
    chk.sample({'history(a,b versions per snapshot)': [list(s) for s in hists[40]], 'order': 'reverse', 'micro': 'mixed'})
    chk.coverage.update({
        'states': len(cases), 'transitions': n, 'traces_validated_against_impl': len(cases),
        'evaluations': n, 'distinct_nontrivial': len(cases),
        'rule': 'all histories of <=3 snapshots over 5 file states x {chronological, reverse} x 3 microsecond patterns x '
                '{unencrypted, encrypted}; per history every snapshot filter x file filter restore against the reference '
                'selection, listings under all column subsets of size <=2, printed names fed to delete',
        'histories': len(hists),
    })
    chk.assumptions += ['distinct timestamps', 'chunk-count column not modelled (chunking is C10/C11)']
    return chk.finish()


if __name__ == '__main__':
    sys.exit(common.run_main(main))
