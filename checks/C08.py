"""C08 - garbage collection is complete and confined to the caller's own data.

E2: C02's history space started from states that additionally contain what
interrupted runs and other tenants leave behind (orphan chunks of each family, a
foreign tenant's snapshot and chunks, bystander objects outside the chunk and
snapshot areas). Oracles on every transition."""
import sys
from pathlib import Path

sys.path.insert(0, str(Path(__file__).resolve().parent.parent))
from mc import common

R = common.bootstrap()
from mc import hist as H, world as W  # noqa: E402

PID = 'C08'
MENU = ['F1', 'F2', 'F3']
BYSTANDERS = {'keys/k1': b'key material', 'database/x': b'db', 'snapshots.old/y': b'old', 'data.bak/zz': b'bak',
              'datafile': b'df'}


def make_initial_c08(arg):
    kind, planted = arg
    fsdirs = H.materialize()
    s = H.make_initial(kind)
    if not planted:
        return s
    if kind == 'enc':
        # foreign tenant D: independent key, one snapshot; never acts again
        st = W.Store(s.o)
        W.set_random('tenant-D')
        keyD = W.run(W.a_add_key, st, W.User('A', b'pw-A', s.users['A']['key']), b'pw-D', False)
        s.users['D'] = {'password': b'pw-D', 'key': keyD, 'family': 'fam3', 'kind': 'foreign'}
        s = H.apply(s, ('snap', 'D', 'F2'), fsdirs).state
        s.ledger[-1]['foreign'] = True
        orphan_makers = [('A', 'F4'), ('C', 'F4')]
    else:
        orphan_makers = [('U', 'F4')]
    # orphans: what an interrupted snapshot leaves (chunks uploaded, snapshot object never written)
    orphans = {}
    for u, fs in orphan_makers:
        r = H.apply(s, ('snap', u, fs), fsdirs)
        loc = r.state.ledger[-1]['loc']
        new = r.state
        del new.o[loc]
        new.ledger.pop()
        orphans[s.users[u]['family']] = sorted(set(new.o) - set(s.o))
        s = new
    s.o.update(BYSTANDERS)
    s.extra['orphans'] = orphans
    s.hist = [['planted', kind]]
    return s


def family_of(state, loc):
    """Which family's MAC tag does the object name carry (None if none)."""
    fams = {}
    for uname, u in state.users.items():
        fams.setdefault(u['family'], uname)
    for fam, uname in fams.items():
        rd = H.reader_for(state, uname)
        ok = rd.owns_chunk_name(loc) if loc.startswith('data/') else rd.owns_snapshot_name(loc)
        if ok:
            return fam
    return None


def refs_by_family(state, fam, ledger=None):
    names = set()
    for e in (state.ledger if ledger is None else ledger):
        if state.users[e['owner']]['family'] != fam or e['loc'] not in state.o:
            continue
        rd = H.reader_for(state, e['owner'])
        for d in rd.snapshot(e['loc'])['chunks']:
            names.add(rd.chunk_location(d))
    return names


_LOCREPO = R.Repository(None, concurrent=1)


def oracles(before, res, ev):
    ps = []
    new = res.state
    u = before.users[ev[1]]
    fam = u['family']
    plain = u['kind'] == 'plain'
    # confinement: everything that is not a chunk of the caller's family, and is not one of the
    # snapshots the caller deleted, keeps its bytes
    deleted_snaps = {before.ledger[i]['loc'] for i in ev[2]} if ev[0] == 'del' else set()
    for name, data in before.o.items():
        if name in deleted_snaps:
            continue
        mine = name.startswith('data/') and (plain or family_of(before, name) == fam)
        if mine:
            continue
        if new.o.get(name) != data:
            ps.append({'what': 'foreign-object-touched', 'name': name, 'gone': name not in new.o})
            break
    if res.exc is not None:
        return ps
    if ev[0] == 'del':
        dropped = [before.ledger[i] for i in ev[2]]
        remaining = [e for i, e in enumerate(before.ledger) if i not in ev[2]]
        only = refs_by_family(before, fam, dropped) - refs_by_family(before, fam, remaining)
        left = only & set(new.o)
        if left:
            ps.append({'what': 'delete-left-chunks', 'count': len(left), 'example': sorted(left)[0]})
        if deleted_snaps & set(new.o):
            ps.append({'what': 'delete-left-snapshot'})
        # delete is not clean: chunks it has no business with stay (orphans, others' chunks)
        expect_gone = only | deleted_snaps
        for name in before.o:
            if name not in new.o and name not in expect_gone:
                ps.append({'what': 'delete-removed-too-much', 'name': name})
                break
    if ev[0] == 'clean':
        mine = {n for n in new.o if n.startswith('data/') and (plain or family_of(new, n) == fam)}
        ref = refs_by_family(new, fam)
        if mine != ref:
            ps.append({'what': 'clean-not-exact', 'orphans_left': len(mine - ref), 'referenced_missing': len(ref - mine)})
    # location builders and parsers are inverse on every name met
    for name in new.o:
        try:
            if name.startswith('data/'):
                n, t = _LOCREPO.parse_chunk_location(name)
                if _LOCREPO.get_chunk_location(name=n, tag=t) != name:
                    ps.append({'what': 'location-roundtrip', 'name': name})
            elif name.startswith('snapshots/'):
                n, t = _LOCREPO.parse_snapshot_location(name)
                if _LOCREPO.get_snapshot_location(name=n, tag=t) != name:
                    ps.append({'what': 'location-roundtrip', 'name': name})
        except Exception as e:
            ps.append({'what': 'location-parse-error', 'name': name, 'err': repr(e)})
    return ps


FAULT_RUNS = [0]


class BackendDown(Exception):
    pass


def _nth_delete_fails(k):
    seen = {'n': 0}

    def fault(kind, name, idx):
        if kind == 'delete':
            seen['n'] += 1
            if seen['n'] - 1 == k:
                raise BackendDown(f'delete #{k} of {name}')

    return fault


def expand(state):
    fsdirs = H.materialize()
    out = []
    actors = [u for u in sorted(state.users) if state.users[u]['kind'] != 'foreign']
    for ev in H.standard_events(state, MENU, users=actors):
        res = H.apply(state, ev, fsdirs)
        new = res.state
        vs = []
        sig0 = {'event': ev[0], 'actor_kind': state.users[ev[1]]['kind'], 'planted': 'orphans' in state.extra}
        if res.exc is not None:
            vs.append((dict(sig0, what='command-failed', exc=type(res.exc).__name__), {'hist': new.hist, 'err': repr(res.exc)[:300]}))
        for p in oracles(state, res, ev):
            vs.append((dict(sig0, what=p['what']), {'hist': new.hist, 'problem': p}))
        # one permanently failing backend deletion: if the command still reports completion,
        # the completion oracles must hold all the same
        if ev[0] in ('del', 'clean') and res.exc is None:
            ndel = sum(1 for k, _ in res.calls if k == 'delete')
            for k in range(ndel):
                fres = H.apply(state, ev, fsdirs, fault=_nth_delete_fails(k))
                FAULT_RUNS[0] += 1
                if fres.exc is None:
                    for p in oracles(state, fres, ev):
                        vs.append((dict(sig0, what=p['what'], fault='delete-fails'),
                                   {'hist': fres.state.hist, 'problem': p, 'failing_delete_index': k}))
        # a delete that names an own snapshot together with one of another key holder of the same family: it may be
        # refused as a whole; if it goes ahead, whatever stays listed keeps every chunk it references
        if ev[0] == 'del' and res.exc is None:
            fam_ = state.users[ev[1]]['family']
            foreign = [e for e in state.ledger if e['owner'] != ev[1] and state.users[e['owner']]['family'] == fam_]
            if foreign:
                names_ = tuple(state.ledger[i]['name'] for i in ev[2]) + (foreign[0]['name'],)
                mres = H.apply(state, ('delname', ev[1], names_), fsdirs)
                FAULT_RUNS[0] += 1
                if mres.exc is None or mres.state.o != state.o:
                    gone = tuple(i for i, e in enumerate(state.ledger) if e['loc'] not in mres.state.o)
                    mres.state.ledger = [e for e in state.ledger if e['loc'] in mres.state.o]
                    for p in H.invariant_restorable(mres.state, fsdirs)[:1]:
                        vs.append((dict(sig0, what=p['what'], variant='own+foreign-names'),
                                   {'hist': state.hist + [['delname', ev[1], 'own+foreign', list(ev[2])]], 'problem': p}))
        # remaining snapshots stay restorable (guards the oracles above against vacuity)
        if ev[0] != 'snap':
            for p in H.invariant_restorable(new, fsdirs)[:1]:
                if p['what'] != 'snapshot-set':
                    vs.append((dict(sig0, what=p['what']), {'hist': new.hist, 'problem': p}))
        out.append((ev, new, H.canon(new), vs))
    return out


def session_case(args):
    """ONE Repository object for every user (unlocked again whenever the actor changes): the completion and
    confinement oracles hold for every command all the same."""
    kind, events = args
    import itertools as _it
    fsdirs = H.materialize()
    s0 = make_initial_c08((kind, False))
    vs = []
    before = s0
    n = 0
    for ev, new, res in H.run_session(s0, events, fsdirs, one_object=True):
        n += 1
        sig0 = {'event': ev[0], 'actor_kind': s0.users[ev[1]]['kind'], 'planted': False, 'mode': 'one-repository-object-for-all-users'}
        ev2 = ev
        if ev[0] == 'delall':
            ev2 = ('del', ev[1], tuple(i for i, e in enumerate(before.ledger) if e['owner'] == ev[1]))
        if res.exc is not None:
            vs.append((dict(sig0, what='command-failed', exc=type(res.exc).__name__), {'hist': new.hist, 'err': repr(res.exc)[:300]}))
        if ev2[0] != 'del' or ev2[2]:
            for p in oracles(before, res, ev2):
                vs.append((dict(sig0, what=p['what']), {'session': [list(map(str, e)) for e in events], 'problem': p, 'kind': kind}))
        before = new
    return n, vs


def session_histories(kind):
    import itertools as _it
    if kind == 'enc':
        users = ['A', 'C', 'B']
    else:
        return []
    menu = [(c, u) + ((f,) if c == 'snap' else ()) for u in users[:2] for c, f in (('snap', 'F1'), ('delall', None), ('clean', None))]
    menu += [('snap', 'B', 'F1'), ('delall', 'B')]
    out = []
    prefix = [('snap', 'A', 'F1'), ('snap', 'C', 'F1')]
    for k in (1, 2, 3):
        for seq in _it.product(menu, repeat=k):
            if len({e[1] for e in prefix[-1:] + list(seq)}) < 2 and k < 3:
                continue
            out.append((kind, prefix + list(seq)))
    return out


def replay(case):
    if 'session' in case:
        evs = [tuple(e) for e in case['session']]
        n, vs = session_case((case.get('kind', 'enc'), evs))
        return {'violations': [v[0]['what'] for v in vs]}
    fsdirs = H.materialize()
    hist = [tuple(tuple(x) if isinstance(x, list) else x for x in ev) for ev in case['hist']]
    planted = bool(hist) and hist[0][0] == 'planted'
    if planted:
        kind = hist[0][1]
        hist = hist[1:]
    else:
        kind = 'unenc' if hist and hist[0][1] == 'U' else 'enc'
    s = make_initial_c08((kind, planted))
    v = []
    for ev in hist:
        if ev[0] == 'delname' and ev[2] == 'own+foreign':
            fam_ = s.users[ev[1]]['family']
            foreign = [e for e in s.ledger if e['owner'] != ev[1] and s.users[e['owner']]['family'] == fam_]
            names_ = tuple(s.ledger[i]['name'] for i in ev[3]) + (foreign[0]['name'],)
            mres = H.apply(s, ('delname', ev[1], names_), fsdirs)
            if mres.exc is None or mres.state.o != s.o:
                mres.state.ledger = [e for e in s.ledger if e['loc'] in mres.state.o]
                v += [p['what'] for p in H.invariant_restorable(mres.state, fsdirs)[:1]]
            break
        res = H.apply(s, ev, fsdirs)
        v += [p['what'] for p in oracles(s, res, ev)]
        s = res.state
    return {'violations': v, 'hist': case['hist']}


def main():
    t = common.tier()
    chk = common.Check(PID, 'model_checking')
    chk.unexercised_whats = {'command-failed'}   # a failing command is not what C08 is about: reported as 'could not exercise'
    H.materialize()
    depth = 3 if t == 'quick' else 4
    try:
        states = transitions = 0
        stats_all = []
        for kind in ('enc', 'unenc'):
            inits = list(common.pmap(make_initial_c08, [(kind, False), (kind, True)], procs=2, force=True))
            d = depth if kind == 'enc' else depth + 1
            stats, viol = H.bfs(inits, expand, d, label=kind)
            stats['repository'] = kind
            for smp in stats.pop('samples')[:2]:
                chk.sample({'repository': kind, 'history': smp})
            stats_all.append(stats)
            states += stats['states']
            transitions += stats['transitions']
            for sig, detail in viol:
                chk.violation(sig, detail)
        sess = common.shuffled(session_histories('enc'), 'c08s')
        if t == 'quick':
            sess = [h for h in sess if len(h[1]) <= 4] + [h for h in sess if len(h[1]) == 5][::3]
        ncmd = 0
        for n_, vs_ in common.pmap(session_case, sess, chunksize=8, ordered=False):
            ncmd += n_
            for sig, detail in vs_:
                chk.violation(sig, detail)
        transitions += ncmd
        chk.coverage.update({
            'states': states, 'transitions': transitions, 'traces_validated_against_impl': transitions,
            'evaluations': transitions, 'distinct_nontrivial': states + len(sess), 'one_object_sessions': len(sess),
            'rule': 'BFS over snapshot/delete/clean histories from clean and planted initial states (orphans per family, foreign '
                    'tenant, bystanders); completeness/confinement oracles on every transition',
            'bfs': stats_all, 'bystanders': sorted(BYSTANDERS),
        })
        chk.assumptions += ['8-byte fixed chunks', 'foreign tenant D holds an independent key and never acts',
                            'chunk and snapshot areas contain only objects written by replicat']
    finally:
        H.cleanup_fixed_root()
    return chk.finish()


if __name__ == '__main__':
    sys.exit(common.run_main(main))
