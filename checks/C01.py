"""C01 - backup round trip is the identity on file trees.

E3: complete products of menus built one value per shortcut in the code (sizes
around the alignment / min / max / 2*max, identical and overlapping contents,
odd names, argument lists with repeats / overlaps / symlinks, concurrency,
chunker parameters, every cipher x hash, pre-existing target files). Full
product of trees x argument lists at the default configuration; every other
dimension varied against a reduced tree menu (one deviation; two in thorough)."""
import itertools
import os
import shutil
import sys
from pathlib import Path

sys.path.insert(0, str(Path(__file__).resolve().parent.parent))
from mc import common

R = common.bootstrap()
from mc import hist as H, world as W  # noqa: E402

W.install_virtual_time()   # the rate-limit dimension sleeps in virtual time

PID = 'C01'

SIZES = [0, 1, 3, 4, 5, 7, 8, 9, 12, 15, 16, 17, 24, 25]
SIZES_R = [0, 1, 4, 7, 8, 9, 16, 17, 25]
NAMES = ['a', 'sub/b', 'é', 'n\udcff', 'sp ace']   # \udcff = byte 0xFF surrogate-escaped (non-UTF-8 name)
ARGS = ['files', 'dir', 'dir+file', 'file-twice', 'symlink-arg', 'dir-with-symlink', 'dir-twice', 'subdir+dir', 'dir-with-dir-symlink']
CHUNKERS = [(4, 8), (1, 4), (5, 10), (8, 8), (4, 64), (4, 9), (16, 16), (1, 1), (3, 7)]
CIPHERS = [None, {'name': 'aes_gcm', 'key_bits': 128}, {'name': 'aes_gcm', 'key_bits': 256}, {'name': 'chacha20_poly1305'}]
HASHES = [{'name': 'blake2b', 'length': 64}, {'name': 'blake2b', 'length': 20}, {'name': 'sha2', 'bits': 256},
          {'name': 'sha3', 'bits': 384}]
PRE = ['none', 'longer', 'shorter', 'same-length', 'elsewhere']
DEFAULT = {'N': 2, 'chunker': (4, 8), 'cipher': None, 'hash': HASHES[0], 'pre': 'none', 'args': 'dir', 'rate': None}


def content(kind, size, other=None):
    if kind == 'zeros':
        return bytes(size)
    if kind == 'ramp':
        return bytes((i * 13 + 1) & 0xFF for i in range(size))
    if kind == 'ramp2':
        return bytes((i * 29 + 7) & 0xFF for i in range(size))
    if kind == 'same':
        return other
    if kind == 'suffix':
        return other[len(other) - size:] if size <= len(other) else other
    raise AssertionError(kind)


def trees(t):
    """Each tree: list of (name, bytes)."""
    out = []
    for s in SIZES:
        for k in ('zeros', 'ramp'):
            for nm in NAMES:
                out.append([(nm, content(k, s))])
    two = []
    for s1 in SIZES_R:
        for s2 in SIZES_R:
            a = content('ramp', s1)
            two.append([('a', a), ('sub/b', content('ramp2', s2))])
            if s2 <= s1:
                two.append([('a', a), ('sub/b', content('suffix', s2, a))])
        two.append([('a', content('ramp', s1)), ('sub/b', content('ramp', s1))])      # identical files
        two.append([('a', content('zeros', s1)), ('b2', content('zeros', s1))])
    out += two
    if t == 'thorough':
        for s in list(range(0, 34)) + [40, 63, 64, 65, 127, 128, 129]:
            for k in ('zeros', 'ramp'):
                out.append([('a', content(k, s))])
        for s1, s2, s3 in itertools.product([0, 1, 8, 9, 17], repeat=3):
            a = content('ramp', s1)
            out.append([('a', a), ('sub/b', content('ramp2', s2)), ('sub/c', content('suffix', min(s3, s1), a))])
    return out


def reduced_trees():
    out = []
    for s in (0, 1, 7, 8, 9, 17, 25):
        out.append([('a', content('ramp', s))])
    out.append([('n\udcff', content('ramp', 9))])
    out.append([('é', content('zeros', 16)), ('sp ace', content('ramp', 5))])
    for s1, s2 in ((0, 0), (0, 9), (8, 8), (17, 9), (25, 16), (9, 0)):
        a = content('ramp', s1)
        out.append([('a', a), ('sub/b', content('ramp2', s2))])
    out.append([('a', content('ramp', 17)), ('sub/b', content('ramp', 17))])
    out.append([('a', content('ramp', 24)), ('sub/b', content('suffix', 9, content('ramp', 24)))])
    return out


def settings_for(cfg):
    mn, mx = cfg['chunker']
    s = {'chunking': {'min_length': mn, 'max_length': mx}, 'hashing': dict(cfg['hash'])}
    if cfg['cipher'] is None:
        s['encryption'] = None
    else:
        s['encryption'] = {'cipher': dict(cfg['cipher']), 'kdf': dict(W.FAST_KDF)}
    return s


_INIT = {}


def initialised(cfg):
    key = common.h([cfg['chunker'], cfg['cipher'], cfg['hash']])
    if key not in _INIT:
        st = W.Store()
        W.set_random('c01-' + key)
        k = W.run(W.a_init, st, settings_for(cfg), b'pw')
        _INIT[key] = (dict(st.o), k)
    return _INIT[key]


def build(root, tree, args):
    """Create the tree and the argument list. Returns (path arguments, model: recorded path -> (bytes, mtime_ns))."""
    src = root / 'src'
    written = W.write_tree(src, dict(tree))
    by_rel = {rel: str(src / rel) if True else None for rel, _ in tree}
    # filesystem paths for names (os.fsdecode handles the surrogate-escaped name)
    fpaths = {rel: Path(os.fsdecode(os.path.join(os.fsencode(str(src)), os.fsencode(rel)))) for rel, _ in tree}
    model = {}

    def rec(path_str, rel):
        data = dict(tree)[rel]
        model[path_str] = (data, written[str(fpaths[rel])][1])

    first = tree[0][0]
    if args == 'files':
        paths = [fpaths[rel] for rel, _ in tree]
        for rel, _ in tree:
            rec(str(fpaths[rel].resolve()), rel)
    elif args in ('dir', 'dir-twice'):
        paths = [src] if args == 'dir' else [src, src]
        for rel, _ in tree:
            rec(str(fpaths[rel]), rel)
    elif args == 'dir+file':
        paths = [src, fpaths[first]]
        for rel, _ in tree:
            rec(str(fpaths[rel]), rel)
    elif args == 'subdir+dir':
        paths = [fpaths[first].parent, src]
        for rel, _ in tree:
            rec(str(fpaths[rel]), rel)
    elif args == 'file-twice':
        paths = [fpaths[first], fpaths[first]] + [fpaths[rel] for rel, _ in tree[1:]]
        for rel, _ in tree:
            rec(str(fpaths[rel]), rel)
    elif args == 'symlink-arg':
        link = root / 'link-to-first'
        os.symlink(fpaths[first], link)
        paths = [link] + [fpaths[rel] for rel, _ in tree[1:]]
        for rel, _ in tree:
            rec(str(fpaths[rel]), rel)      # a symlink argument is resolved: recorded under the target's path
    elif args == 'dir-with-symlink':
        outside = root / 'outside-file'
        outside.write_bytes(b'outside content 123')
        os.utime(outside, ns=(1_500_000_000_000_000_001, 1_500_000_000_000_000_002))
        os.symlink(outside, src / 'zz-link')
        paths = [src]
        for rel, _ in tree:
            rec(str(fpaths[rel]), rel)
        model[str(src / 'zz-link')] = (b'outside content 123', 1_500_000_000_000_000_002)
    elif args == 'dir-with-dir-symlink':
        # one directory reachable under two names inside one walk: a real directory and a symlink to it
        real = src / 'zz-real-dir'
        real.mkdir()
        (real / 'inner').write_bytes(b'inner content 4567')
        os.utime(real / 'inner', ns=(1_500_000_000_000_000_003, 1_500_000_000_000_000_004))
        os.symlink(real, src / 'zz-alias')
        paths = [src]
        for rel, _ in tree:
            rec(str(fpaths[rel]), rel)
        model[str(real / 'inner')] = (b'inner content 4567', 1_500_000_000_000_000_004)
        model[str(src / 'zz-alias' / 'inner')] = (b'inner content 4567', 1_500_000_000_000_000_004)
    else:
        raise AssertionError(args)
    return paths, model


def reach_counts(paths):
    """How often the argument list reaches each file (resolved; directory walks follow symlinks)."""
    from collections import Counter
    c = Counter()
    for p in paths:
        p = Path(p).resolve()
        if p.is_dir():
            for d, _dirs, files in os.walk(p, followlinks=True):
                for f in files:
                    c[os.path.join(d, f)] += 1
        else:
            c[str(p)] += 1
    return c


def run_case(case):
    ti, tree, cfg = case
    sc = H.worker_scratch()
    root = sc.sub()
    objects, key = initialised(cfg)
    store = W.Store(objects)
    user = W.User('u', b'pw', key) if key else None
    paths, model = build(root, tree, cfg['args'])
    target = root / 'target'
    # pre-existing files in the target
    pre = cfg['pre']
    unrelated = {}
    if pre != 'none':
        for rp, (data, _) in model.items():
            tp = Path(W.restore_path(target, rp))
            tp.parent.mkdir(parents=True, exist_ok=True)
            if pre == 'longer':
                tp.write_bytes(b'X' * (len(data) + 5))
            elif pre == 'shorter':
                tp.write_bytes(b'X' * max(0, len(data) - 2))
            elif pre == 'same-length':
                tp.write_bytes(b'X' * len(data))
        if pre == 'elsewhere':
            up = target / 'unrelated' / 'keep.me'
            up.parent.mkdir(parents=True, exist_ok=True)
            up.write_bytes(b'keep')
            unrelated[str(up)] = b'keep'

    W.set_random('c01-run')
    W.set_clock()

    async def go():
        repo = await W.a_open(store, user, N=cfg['N'])
        with W.captured():
            snap = await repo.snapshot(paths=paths, rate_limit=cfg.get('rate'))
            await repo.close()
        repo2 = await W.a_open(W.Store(store.o), user, N=cfg['N'])
        with W.captured():
            res = await repo2.restore(path=target, rate_limit=cfg.get('rate'))
            await repo2.close()
        return snap, res

    feats = {
        'all_empty': all(len(d) == 0 for d, _ in model.values()),
        'dup_args': max(reach_counts(paths).values(), default=0) > 1,
        'pre': pre,
    }
    vs = []

    def bad(symptom, **kw):
        vs.append((dict(feats, symptom=symptom, args=cfg['args'] if symptom == 'exception' else None),
                   {'tree': [(n, d) for n, d in tree], 'cfg': cfg, 'symptom': symptom, **kw}))

    try:
        snap, res = W.run(go)
    except Exception as e:
        bad('exception', err=repr(e)[:300])
        shutil.rmtree(root, ignore_errors=True)
        return vs
    got = W.read_tree(target)
    want = {W.restore_path(target, rp): v for rp, v in model.items()}
    for p, data in unrelated.items():
        if p not in got or got[p][0] != data:
            bad('unrelated-file-touched')
        got.pop(p, None)
    missing = sorted(set(want) - set(got))
    extra = sorted(set(got) - set(want))
    if missing:
        bad('missing-files', count=len(missing), example=missing[0])
    if extra:
        bad('extra-files', count=len(extra), example=extra[0])
    for p in sorted(set(want) & set(got)):
        wd, wm = want[p]
        gd, gm = got[p]
        if gd != wd:
            if len(wd) and len(gd) % len(wd) == 0 and gd == wd * (len(gd) // len(wd)):
                bad('content-repeated', times=len(gd) // len(wd))
            elif gd[:len(wd)] == wd and len(gd) > len(wd) and set(gd[len(wd):]) <= {ord('X')}:
                bad('tail-of-preexisting-file-kept', extra_bytes=len(gd) - len(wd))
            else:
                bad('content-differs', got=gd, want=wd)
        elif gm != wm:
            bad('mtime-differs', got=gm, want=wm)
    files = list(res.files)
    if sorted(files) != sorted(model):
        if len(files) != len(set(files)):
            bad('returned-path-twice')
        elif not missing and not extra:
            bad('returned-list-differs', got=len(files), want=len(model))
    shutil.rmtree(root, ignore_errors=True)
    return vs


def _resolves_twice(tree, args):
    return True


def replay(case):
    tree = [(n, bytes.fromhex(d['!hex'])) for n, d in case['tree']]
    cfg = case['cfg']
    cfg['chunker'] = tuple(cfg['chunker'])
    vs = run_case((0, tree, cfg))
    return {'violations': [v[0] for v in vs]}


def plan(t):
    cases = []
    full = trees(t)
    red = reduced_trees()
    # 1. every tree x every argument list at the default configuration
    for ti, tree in enumerate(full):
        for a in ARGS:
            cases.append((ti, tree, dict(DEFAULT, args=a)))
    # 2. one deviation from the default, against the reduced trees x argument lists
    devs = []
    for N in (1, 5):
        devs.append({'N': N})
    for ch in CHUNKERS[1:]:
        devs.append({'chunker': ch})
    for ci in CIPHERS:
        for ha in HASHES:
            if ci is None and ha is HASHES[0]:
                continue
            devs.append({'cipher': ci, 'hash': ha})
    for p in PRE[1:]:
        devs.append({'pre': p})
    for rate in (1, 64, 1000):
        devs.append({'rate': rate})     # bandwidth limit: the data path goes through the limiter and progress wrappers
    arglists = ARGS if t == 'thorough' else ['dir', 'files', 'file-twice', 'dir-with-symlink', 'dir-with-dir-symlink']
    for d in devs:
        for ti, tree in enumerate(red):
            for a in arglists:
                cases.append((1000 + ti, tree, dict(DEFAULT, args=a, **d)))
    # 3. two deviations (thorough)
    if t == 'thorough':
        for d1, d2 in itertools.combinations(devs, 2):
            if set(d1) & set(d2):
                continue
            for ti, tree in enumerate(red[::3]):
                cases.append((2000 + ti, tree, dict(DEFAULT, args='dir', **d1, **d2)))
    return cases


def big_file_cases():
    """Crossing the 16 MiB read piece of the streaming loop (no hook needed)."""
    out = []
    M = 16_777_216
    for size in (M - 1, M, M + 1, 2 * M):
        data = (bytes(range(251)) * (size // 251 + 1))[:size]
        out.append((3000, [('big', data)], dict(DEFAULT, args='files', chunker=(1_048_576, 4_194_304))))
    return out


def main():
    t = common.tier()
    chk = common.Check(PID, 'exploration')
    cases = plan(t)
    if t == 'thorough':
        cases += big_file_cases()
    cases = common.shuffled(cases, 'c01')
    n = 0
    distinct = set()
    for (ti, tree, cfg), vs in zip(cases, common.pmap(run_case, cases, chunksize=16)):
        n += 1
        distinct.add(common.h([[(nm, len(d), d[:4]) for nm, d in tree], cfg]))
        for sig, detail in vs:
            if len(detail.get('tree', [])) and any(len(d) > 1000 for _, d in detail['tree']):
                detail = dict(detail, tree=[(nm, f'<{len(d)} bytes>') for nm, d in detail['tree']])
            chk.violation(sig, detail)
    chk.sample({'tree': [(nm, len(d)) for nm, d in cases[0][1]], 'cfg': cases[0][2]})
    chk.sample({'tree': [(nm, len(d)) for nm, d in cases[1][1]], 'cfg': cases[1][2]})
    chk.coverage.update({
        'evaluations': n, 'distinct_nontrivial': len(distinct),
        'rule': 'every tree of the menu x every argument list at the default configuration; every single deviation '
                '(concurrency, chunker, cipher x hash, pre-existing target) x reduced trees x argument lists; pairs of '
                'deviations in the thorough tier; distinct = distinct (tree, configuration)',
        'trees': len(trees(t)), 'reduced_trees': len(reduced_trees()), 'argument_lists': ARGS, 'chunkers': CHUNKERS,
    })
    chk.assumptions += ['files do not change while the snapshot runs', 'scratch file system is tmpfs or the local disk',
                        'a symlink given as an argument is recorded under the resolved path (what the code does)']
    return chk.finish()


if __name__ == '__main__':
    sys.exit(common.run_main(main))
