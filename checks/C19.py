"""C19 - option precedence is CLI over environment over profile over defaults.

E3: the real replicat.__main__.main is driven with sys.argv, os.environ, a TOML
file and --profile; _cmd_handler is replaced by a recorder that still calls the
real _instantiate_backend. For every option x every subset of the sources that
exist for it x commands x backends (local, s3c, s3, b2 and a custom backend
found through the namespace package), values distinct per source, TOML values
as strings and as native ints/bools. Reference: a five-line precedence function.
replicat.utils.cli/config and replicat.__main__ are re-imported per case (one
process runs main() once; argparse parent parsers keep state otherwise)."""
import ast
import asyncio
import contextlib
import importlib
import io
import itertools
import os
import shutil
import sys
from pathlib import Path

sys.path.insert(0, str(Path(__file__).resolve().parent.parent))
from mc import common

R = common.bootstrap()
from mc import hist as H  # noqa: E402

PID = 'C19'
CUSTOM_SRC = '''
from replicat.backends.base import Backend


class Custom(Backend, short_name='CB'):
    def __init__(self, connection_string, *, port=8080, secure=False, label='dflt', ratio=1.5, token,
                 verify: bool = True, tag: str = 'x', retries: int = 3):
        self.connection_string = connection_string
        self.kw = dict(port=port, secure=secure, label=label, ratio=ratio, token=token, verify=verify, tag=tag, retries=retries)

    def exists(self, name): return False
    def upload(self, name, data): pass
    def upload_stream(self, name, stream, length, chunk_size=1): pass
    def download(self, name): return b''
    def download_stream(self, name, stream, chunk_size=1): pass
    def list_files(self, prefix=''): return []
    def delete(self, name): pass


Client = Custom
'''
COMMANDS = {
    'init': [], 'add-key': [], 'list-snapshots': [], 'ls': [], 'list-files': [], 'lf': [], 'snapshot': ['SRC'], 'restore': [],
    'delete': ['abc'], 'clean': [], 'benchmark': ['gclmulchunker'], 'upload-objects': ['SRC'], 'download-objects': [],
    'list-objects': [], 'delete-objects': ['x'],
}
_ENVROOT = {}


def envroot():
    if os.getpid() not in _ENVROOT:
        sc = H.worker_scratch()
        root = sc.sub()
        ns = root / 'nsroot' / 'replicat' / 'backends'
        ns.mkdir(parents=True)
        (ns / 'custombk.py').write_text(CUSTOM_SRC)
        sys.path.insert(1, str(root / 'nsroot'))
        importlib.invalidate_caches()
        (root / 'SRC').write_bytes(b'data')
        for nm in ('pw-cli', 'pw-prof', 'pw-dflt', 'key-cli', 'key-prof', 'key-dflt'):
            (root / nm).write_bytes(nm.encode() + b'-contents')
        _ENVROOT[os.getpid()] = root
    return _ENVROOT[os.getpid()]


def guess(value):
    if isinstance(value, str):
        v = value.title() if value.lower() in {'none', 'false', 'true'} else value
        try:
            return ast.literal_eval(v)
        except (ValueError, SyntaxError):
            return value
    return value


def toml_value(v):
    if isinstance(v, bool):
        return 'true' if v else 'false'
    if isinstance(v, (int, float)):
        return repr(v)
    return '"' + str(v).replace('\\', '\\\\').replace('"', '\\"') + '"'


# option table: name -> dict(sources -> (how to set, raw value), builtin, observe)
UNOBSERVED = '<the command does not use this option>'
SPECIAL_FILES = ('/proc/sys/kernel/ostype', '/proc/sys/kernel/osrelease', '/proc/version')


def call_kwarg(rec, methods, kw):
    """The value the command passed to the first of the given Repository methods (UNOBSERVED if it calls none)."""
    for name, a, k in rec.get('calls', []):
        if name in methods and kw in k:
            return k[kw]
    return UNOBSERVED


def option_table(root):
    T = {}
    T['concurrent'] = {
        'cli': (['-c', '11'], 11), 'profile': ('concurrent', '13'), 'default': ('concurrent', '17'), 'builtin': 5,
        'native': {'profile': 13, 'default': 17}, 'observe': lambda rec: rec['init_kwargs'].get('concurrent', UNOBSERVED), 'coerce': int}
    T['hide-progress'] = {
        'cli': (['-q'], True), 'profile': ('hide-progress', 'true'), 'default': ('hide-progress', 'true'), 'builtin': False,
        'native': {'profile': True, 'default': True}, 'observe': lambda rec: rec['init_kwargs'].get('quiet', UNOBSERVED), 'coerce': lambda v: guess(v)}
    T['cache-directory'] = {
        'cli': (['--cache-directory', '/cache/cli'], Path('/cache/cli')), 'profile': ('cache-directory', '/cache/prof'),
        'default': ('cache-directory', '/cache/dflt'), 'builtin': 'DEFAULT_CACHE', 'observe': lambda rec: rec['init_kwargs'].get('cache_directory', UNOBSERVED),
        'coerce': Path}
    T['password'] = {
        'cli': (['-p', 'pw-on-cli'], b'pw-on-cli'), 'env': ('REPLICAT_PASSWORD', 'pw-in-env'), 'profile': ('password', 'pw-in-prof'),
        'default': ('password', 'pw-in-dflt'), 'builtin': None, 'observe': lambda rec: call_kwarg(rec, ('init', 'unlock'), 'password'),
        'coerce': lambda v: v.encode() if isinstance(v, str) else v}
    T['password-file'] = {
        'cli': (['-P', str(root / 'pw-cli')], b'pw-cli-contents'), 'env': ('REPLICAT_PASSWORD', 'pw-in-env'),
        'profile': ('password-file', str(root / 'pw-prof')), 'default': ('password-file', str(root / 'pw-dflt')), 'builtin': None,
        'observe': lambda rec: call_kwarg(rec, ('init', 'unlock'), 'password'),
        'coerce': lambda v: v.encode() if isinstance(v, str) and not v.startswith('/') else
        (Path(v).read_bytes() if isinstance(v, str) else v)}
    if all(os.path.exists(p_) and os.stat(p_).st_size == 0 for p_ in SPECIAL_FILES):
        # the same two options naming files whose size the file system reports as 0 although they have content
        # (procfs here; pipes and process substitutions behave alike): every source must deliver the content
        T['password-file#special'] = {
            'cli': (['-P', SPECIAL_FILES[0]], Path(SPECIAL_FILES[0]).read_bytes()), 'env': ('REPLICAT_PASSWORD', 'pw-in-env'),
            'profile': ('password-file', SPECIAL_FILES[1]), 'default': ('password-file', SPECIAL_FILES[2]), 'builtin': None,
            'observe': lambda rec: call_kwarg(rec, ('init', 'unlock'), 'password'),
            'coerce': lambda v: v.encode() if isinstance(v, str) and not v.startswith('/') else
            (Path(v).read_bytes() if isinstance(v, str) else v)}
        T['key-file#special'] = {
            'cli': (['-K', SPECIAL_FILES[0]], Path(SPECIAL_FILES[0]).read_bytes()), 'profile': ('key-file', SPECIAL_FILES[1]),
            'default': ('key-file', SPECIAL_FILES[2]), 'builtin': None, 'observe': lambda rec: call_kwarg(rec, ('unlock',), 'key'),
            'coerce': lambda v: Path(v).read_bytes() if isinstance(v, str) else v}
    T['key-file'] = {
        'cli': (['-K', str(root / 'key-cli')], b'key-cli-contents'), 'profile': ('key-file', str(root / 'key-prof')),
        'default': ('key-file', str(root / 'key-dflt')), 'builtin': None, 'observe': lambda rec: call_kwarg(rec, ('unlock',), 'key'),
        'coerce': lambda v: Path(v).read_bytes() if isinstance(v, str) else v}
    T['repository'] = {
        'cli': (['-r', 'local:/repo/cli'], ('local', '/repo/cli')), 'env': ('REPLICAT_REPOSITORY', 'local:/repo/env'),
        'profile': ('repository', 'local:/repo/prof'), 'default': ('repository', 'local:/repo/dflt'), 'builtin': 'CWD',
        'observe': lambda rec: (rec['backend'], str(getattr(rec['instance'], 'path', UNOBSERVED))),
        'coerce': lambda v: tuple(v.split(':', 1)) if isinstance(v, str) else v}
    return T


BACKENDS = {
    # backend -> (repository arg, options {name: (values per source cli/env/profile/default, builtin or MISSING)}, env prefix, required)
    's3c': ('s3c:bucket', {
        'key_id': ({'cli': 'id-cli', 'env': 'id-env', 'profile': 'id-prof', 'default': 'id-dflt'}, 'REQ'),
        'access_key': ({'cli': 'ak-cli', 'env': 'ak-env', 'profile': 'ak-prof', 'default': 'ak-dflt'}, 'REQ'),
        'region': ({'cli': 'reg-cli', 'env': 'reg-env', 'profile': 'reg-prof', 'default': 'reg-dflt'}, 'REQ'),
        'host': ({'cli': 'h-cli:9000', 'env': 'h-env', 'profile': 'h-prof', 'default': 'h-dflt'}, 'REQ'),
        'scheme': ({'cli': 'http', 'env': 'ftp', 'profile': 'gopher', 'default': 'ws'}, 'https'),
        'scheme#2': ({'cli': '17', 'env': 'true', 'profile': 'none', 'default': '1.5'}, 'https'),
    }, 'S3C'),
    's3': ('s3:bucket', {
        'key_id': ({'cli': 'id-cli', 'env': 'id-env', 'profile': 'id-prof', 'default': 'id-dflt'}, 'REQ'),
        'access_key': ({'cli': 'ak-cli', 'env': 'ak-env', 'profile': 'ak-prof', 'default': 'ak-dflt'}, 'REQ'),
        'region': ({'cli': 'reg-cli', 'env': 'reg-env', 'profile': 'reg-prof', 'default': 'reg-dflt'}, 'REQ'),
    }, 'S3'),
    'b2': ('b2:bucket', {
        'key_id': ({'cli': 'id-cli', 'env': 'id-env', 'profile': 'id-prof', 'default': 'id-dflt'}, 'REQ'),
        'application_key': ({'cli': 'app-cli', 'env': 'app-env', 'profile': 'app-prof', 'default': 'app-dflt'}, 'REQ'),
    }, 'B2'),
    'custombk': ('custombk:conn', {
        'port': ({'cli': '1111', 'env': '2222', 'profile': '3333', 'default': '4444'}, 8080),
        'secure': ({'cli': 'true', 'env': 'True', 'profile': 'TRUE', 'default': 'true'}, False),
        'label': ({'cli': 'l-cli', 'env': 'none', 'profile': '17', 'default': 'false'}, 'dflt'),
        'ratio': ({'cli': '2.5', 'env': '3.5', 'profile': '4.5', 'default': '5.5'}, 1.5),
        'token': ({'cli': 't-cli', 'env': 't-env', 'profile': 't-prof', 'default': 't-dflt'}, 'REQ'),
        # values whose coercion would differ if one source were typed by the constructor default instead
        'secure#2': ({'cli': 'false', 'env': 'true', 'profile': 'none', 'default': '0'}, False),
        'label#2': ({'cli': '17', 'env': 'true', 'profile': '1.5', 'default': 'x y'}, 'dflt'),
        'port#2': ({'cli': 'none', 'env': '7', 'profile': 'eight', 'default': '9.5'}, 8080),
        'ratio#2': ({'cli': '3', 'env': 'false', 'profile': '2', 'default': 'r'}, 1.5),
        # annotated options: the annotation must not change how a value from one particular source is read
        'verify': ({'cli': 'false', 'env': 'true', 'profile': 'false', 'default': 'none'}, True),
        'tag': ({'cli': '12', 'env': 'true', 'profile': '1.5', 'default': 'plain'}, 'x'),
        'retries': ({'cli': 'none', 'env': '7', 'profile': 'many', 'default': '2.5'}, 3),
    }, 'CB'),
}
FILL = {'key_id': 'fill-id', 'access_key': 'fill-ak', 'region': 'fill-reg', 'host': 'fill-host', 'application_key': 'fill-app',
        'token': 'fill-token'}


def run_main(argv, env, toml_text, root, location='explicit'):
    """One simulated process: fresh CLI/config modules, recorder instead of the command handler.
    location='default': the file sits at the default location (found through XDG_CONFIG_HOME) and no
    --config is given."""
    import replicat.utils as _ru
    for m in ('replicat.__main__', 'replicat.utils.cli', 'replicat.utils.config'):
        sys.modules.pop(m, None)
    for attr in ('cli', 'config'):
        if hasattr(_ru, attr):
            delattr(_ru, attr)   # `from .utils import cli` would otherwise hand back the old module object
    cfgpath = root / f'cfg-{os.getpid()}.toml'
    if location == 'default':
        xdg = root / f'xdg-{os.getpid()}'
        cfgpath = xdg / 'replicat' / 'replicat.toml'
        cfgpath.parent.mkdir(parents=True, exist_ok=True)
        if toml_text is None and cfgpath.exists():
            cfgpath.unlink()
        env = dict(env, XDG_CONFIG_HOME=str(xdg))
    if toml_text is not None:
        cfgpath.write_text(toml_text)
    old_env = dict(os.environ)
    old_argv = sys.argv
    rec = {}
    for k in list(os.environ):
        if k.startswith(('REPLICAT_', 'S3C_', 'S3_', 'B2_', 'CB_', 'LOCAL_')):
            del os.environ[k]
    os.environ.update(env)
    full = ['replicat'] + argv
    if location == 'default':
        pass    # found (or found missing) at the default location
    elif toml_text is not None:
        full += ['--config', str(cfgpath)]
    else:
        full += ['--ignore-config']
    sys.argv = full
    out, err = io.StringIO(), io.StringIO()
    try:
        with contextlib.redirect_stdout(out), contextlib.redirect_stderr(err):
            import logging
            root_logger = logging.getLogger()
            handlers = list(root_logger.handlers)
            main_mod = importlib.import_module('replicat.__main__')
            import replicat.repository as _rr
            real_repository = _rr.Repository

            class RecordingRepository:
                """Stands in for the Repository class: what reaches its public interface is the effective
                configuration (no dependence on how __main__ is organised internally)."""

                def __init__(self, backend, **kw):
                    rec.update(backend=type(backend).__module__.rsplit('.', 1)[-1], instance=backend, init_kwargs=dict(kw),
                               calls=[])
                    self._backend = backend

                def __getattr__(self, name):
                    if name.startswith('__'):
                        raise AttributeError(name)

                    async def method(*a, **kw):
                        rec['calls'].append((name, a, kw))
                        if name == 'close':
                            for v in vars(self._backend).values():
                                if hasattr(v, 'aclose'):
                                    await v.aclose()
                    return method

            patched = [(main_mod, k) for k, v in vars(main_mod).items() if v is real_repository]
            for m_, k_ in patched:
                setattr(m_, k_, RecordingRepository)
            _rr.Repository = RecordingRepository     # `from . import repository` spelling
            try:
                main_mod.main()
                rec['outcome'] = 'ok' if 'instance' in rec else 'exc:no-repository-created'
            except SystemExit as e:
                rec['outcome'] = f'exit:{e.code}'
            except Exception as e:
                rec['outcome'] = f'exc:{type(e).__name__}'
                rec['exc_msg'] = str(e)[:160]
            finally:
                _rr.Repository = real_repository
                for h_ in list(root_logger.handlers):
                    if h_ not in handlers:
                        root_logger.removeHandler(h_)
                logging.getLogger('backoff').handlers.clear()
    finally:
        sys.argv = old_argv
        os.environ.clear()
        os.environ.update(old_env)
    rec['stderr'] = err.getvalue()[-300:]
    return rec


def split_variant(variant):
    """variant: 'explicit' | 'default' | 'explicit+poison' | 'default+poison' -> (location, poisoned)"""
    loc, _, poison = (variant or 'explicit').partition('+')
    return loc, bool(poison)


def poison_line(opt, root):
    """A file-valued option naming a file that does not exist, placed first in the file's default section:
    the run may be refused, but if it goes ahead every other option must still have its effective value."""
    which = 'password-file' if opt.startswith('key') else 'key-file'
    return f'{which} = "{root}/no-such-file-{os.getpid()}"'


def build_toml(profile_kv, default_kv, native, poison=None):
    lines = []
    if poison:
        lines.append(poison)
    for k, v in default_kv.items():
        lines.append(f'{k} = {toml_value(v)}')
    if profile_kv is not None:
        lines.append('[prof]')
        for k, v in profile_kv.items():
            lines.append(f'{k} = {toml_value(v)}')
    return '\n'.join(lines) + '\n'


def common_case(args):
    opt, subset, command, native = args[:4]
    variant = args[4] if len(args) > 4 else 'explicit'
    location, poisoned = split_variant(variant)
    root = envroot()
    T = option_table(root)[opt]
    argv = [command] + [str(root / 'SRC') if a == 'SRC' else a for a in COMMANDS[command]]
    env, prof, dflt = {}, {}, {}
    for src in subset:
        if src == 'cli':
            argv += T['cli'][0]
        elif src == 'env':
            env[T['env'][0]] = T['env'][1]
        elif src == 'profile':
            prof[T['profile'][0]] = T['native']['profile'] if native and 'native' in T else T['profile'][1]
        elif src == 'default':
            dflt[T['default'][0]] = T['native']['default'] if native and 'native' in T else T['default'][1]
    use_file = ('profile' in subset) or ('default' in subset)
    if 'profile' in subset:
        argv += ['--profile', 'prof']
    toml = build_toml(prof if 'profile' in subset else None, dflt, native,
                      poison_line(opt, root) if poisoned else None) if use_file or poisoned else None
    rec = run_main(argv, env, toml, root, location)
    # reference precedence
    want = T['builtin']
    for src in ('default', 'profile', 'env', 'cli'):
        if src in subset:
            if src == 'cli':
                want = T['cli'][1]
            else:
                raw = (T['native'][src] if native and 'native' in T and src in T['native'] else T[src][1])
                want = T['coerce'](raw)
    sig0 = {'option': opt, 'part': 'common'}
    detail = {'option': opt, 'sources': list(subset), 'command': command, 'native_toml': native}
    if variant != 'explicit':
        sig0['variant'] = detail['variant'] = variant
    if poisoned and rec.get('outcome') != 'ok':
        return []      # refusing to run with an unreadable file named in the configuration is fine
    if rec.get('outcome') != 'ok':
        return [(dict(sig0, what='run-failed', outcome=rec.get('outcome')), dict(detail, stderr=rec.get('stderr'), msg=rec.get('exc_msg')))]
    got = T['observe'](rec)
    if got is UNOBSERVED or (isinstance(got, tuple) and UNOBSERVED in got):
        return []      # e.g. the password for a command that never unlocks: there is no effective value to speak of
    if want == 'DEFAULT_CACHE':
        import replicat.utils.config as cfgmod
        want = cfgmod.DEFAULT_CACHE_DIRECTORY
    if want == 'CWD':
        want = ('local', os.getcwd())
    if got != want or type(got) is not type(want):
        return [(dict(sig0, what='wrong-effective-value', winner=_winner(subset)), dict(detail, got=repr(got), want=repr(want)))]
    return []


def _winner(subset):
    for s in ('cli', 'env', 'profile', 'default'):
        if s in subset:
            return s
    return 'builtin'


def backend_case(args):
    backend, optkey, subset, command, native = args[:5]
    variant = args[5] if len(args) > 5 else 'explicit'
    location, poisoned = split_variant(variant)
    root = envroot()
    repo_arg, opts, prefix = BACKENDS[backend]
    values, builtin = opts[optkey]
    opt = optkey.split('#')[0]
    argv = [command] + [str(root / 'SRC') if a == 'SRC' else a for a in COMMANDS[command]] + ['-r', repo_arg]
    env, prof, dflt = {}, {}, {}
    # required options other than the one under test come from the CLI
    for other, (vals, b) in opts.items():
        if other != opt and b == 'REQ' and '#' not in other:
            argv += ['--' + other.replace('_', '-'), FILL[other]]

    def nat(v):
        return guess(v) if native else v

    for src in subset:
        if src == 'cli':
            argv += ['--' + opt.replace('_', '-'), values['cli']]
        elif src == 'env':
            env[f'{prefix}_{opt}'.upper()] = values['env']
        elif src == 'profile':
            prof[opt.replace('_', '-')] = nat(values['profile'])
        elif src == 'default':
            dflt[opt.replace('_', '-')] = nat(values['default'])
    use_file = ('profile' in subset) or ('default' in subset)
    if 'profile' in subset:
        argv += ['--profile', 'prof']
    toml = build_toml(prof if 'profile' in subset else None, dflt, native,
                      poison_line('', root) if poisoned else None) if use_file or poisoned else None
    rec = run_main(argv, env, toml, root, location)
    sig0 = {'option': f'{backend}.{optkey}', 'part': 'backend', 'native_toml': native and any(
        not isinstance(nat(values[s]), str) for s in subset if s in ('profile', 'default'))}
    detail = {'backend': backend, 'option': optkey, 'sources': list(subset), 'command': command, 'native_toml': native}
    if variant != 'explicit':
        sig0['variant'] = detail['variant'] = variant
    if poisoned and rec.get('outcome') != 'ok':
        return []
    want = builtin
    for src in ('default', 'profile', 'env', 'cli'):
        if src in subset:
            want = guess(values[src])
    if want == 'REQ':
        # a required option given nowhere: the constructor must refuse (TypeError), never a silent default
        if rec.get('outcome') == 'ok':
            return [(dict(sig0, what='missing-required-option-accepted'), detail)]
        return []
    if rec.get('outcome') != 'ok':
        return [(dict(sig0, what='run-failed', outcome=rec.get('outcome')), dict(detail, stderr=rec.get('stderr'), msg=rec.get('exc_msg')))]
    inst = rec['instance']
    got = inst.kw[opt] if backend == 'custombk' else getattr(inst, opt)
    if got != want or type(got) is not type(want):
        return [(dict(sig0, what='wrong-effective-value', winner=_winner(subset)), dict(detail, got=repr(got), want=repr(want)))]
    if rec['backend'] != backend:
        return [(dict(sig0, what='wrong-backend'), detail)]
    return []


def exclusive_case(args):
    kind, command = args
    root = envroot()
    argv = [command] + [str(root / 'SRC') if a == 'SRC' else a for a in COMMANDS[command]]
    toml = None
    if kind == 'cli:-p,-P':
        argv += ['-p', 'x', '-P', str(root / 'pw-cli')]
    elif kind == 'cli:--no-cache,--cache-directory':
        argv += ['--no-cache', '--cache-directory', '/c']
    elif kind == 'cli:--ignore-config,--config':
        argv += ['--ignore-config']
        toml = 'concurrent = "3"\n'
    elif kind == 'file:key,key-file':
        toml = f'key = "k"\nkey-file = "{root / "key-dflt"}"\n'
    elif kind == 'file:password,password-file':
        toml = f'password = "k"\npassword-file = "{root / "pw-dflt"}"\n'
    elif kind == 'file:password(default),password-file(profile)':
        toml = f'password = "k"\n[prof]\npassword-file = "{root / "pw-prof"}"\n'
        argv += ['--profile', 'prof']
    elif kind == 'add-key:--shared,--clone':
        argv = ['add-key', '--shared', '--clone']
    elif kind == 'add-key:-n,-N':
        argv = ['add-key', '-n', 'x', '-N', str(root / 'pw-cli')]
    rec = run_main(argv, {}, toml, root)
    if rec.get('outcome') == 'ok':
        return [({'part': 'exclusive', 'what': 'mutually-exclusive-options-accepted', 'kind': kind}, {'kind': kind, 'command': command})]
    return []


def subsets(sources):
    out = []
    for k in range(len(sources) + 1):
        out += list(itertools.combinations(sources, k))
    return out


def replay(case):
    if 'backend' in case:
        vs = backend_case((case['backend'], case['option'], tuple(case['sources']), case['command'], case['native_toml'],
                           case.get('variant', 'explicit')))
    elif 'kind' in case:
        vs = exclusive_case((case['kind'], case['command']))
    else:
        vs = common_case((case['option'], tuple(case['sources']), case['command'], case['native_toml'],
                          case.get('variant', 'explicit')))
    return {'violations': [v[0] for v in vs]}


def main():
    t = common.tier()
    chk = common.Check(PID, 'exploration')
    cmds = list(COMMANDS)
    ccases = []
    root_table = option_table(Path('/x'))
    for opt, T in root_table.items():
        srcs = [s for s in ('cli', 'env', 'profile', 'default') if s in T]
        for sub in subsets(srcs):
            for native in ((False, True) if 'native' in T else (False,)):
                for cmd in (cmds if t == 'thorough' or opt in ('concurrent', 'password') else cmds[::4]):
                    ccases.append((opt, sub, cmd, native))
    bcases = []
    for backend, (_, opts, _) in BACKENDS.items():
        for opt in opts:
            for sub in subsets(['cli', 'env', 'profile', 'default']):
                for native in (False, True):
                    for cmd in (cmds if t == 'thorough' else ['init', 'snapshot', 'ls']):
                        bcases.append((backend, opt, sub, cmd, native))
    # the same file found at the default location instead of through --config, and a file whose first entry
    # names an unreadable password/key file (the run may be refused; it must not go ahead with other entries dropped)
    for variant in ('default', 'explicit+poison', 'default+poison'):
        ccases += [c + (variant,) for c in ccases if len(c) == 4 and (c[2] == cmds[0] or t == 'thorough')
                   and (('profile' in c[1] or 'default' in c[1]) or variant == 'default')]
        bcases += [c + (variant,) for c in bcases if len(c) == 5 and (c[3] == 'snapshot' or t == 'thorough')
                   and (('profile' in c[2] or 'default' in c[2]) or variant == 'default')]
    ecases = [(k, c) for k in ('cli:-p,-P', 'cli:--no-cache,--cache-directory', 'cli:--ignore-config,--config',
                               'file:key,key-file', 'file:password,password-file',
                               'file:password(default),password-file(profile)') for c in cmds[::3]] + \
        [('add-key:--shared,--clone', 'add-key'), ('add-key:-n,-N', 'add-key')]
    n = 0
    for fn, cases in ((common_case, ccases), (backend_case, bcases), (exclusive_case, ecases)):
        for vs in common.pmap(fn, common.shuffled(cases, fn.__name__), ordered=False, chunksize=16):
            n += 1
            for sig, d in vs:
                chk.violation(sig, d)
    chk.sample({'option': 'custombk.port', 'sources': ['env', 'default'], 'command': 'snapshot', 'native_toml': True})
    chk.sample({'option': 'password', 'sources': ['cli', 'env', 'profile'], 'command': 'ls'})
    chk.coverage.update({
        'evaluations': n, 'distinct_nontrivial': n,
        'rule': 'every option x every subset of its sources x {string, native} TOML x commands; backend options for s3c, s3, '
                'b2 and a namespace-package custom backend; mutually exclusive pairs on the CLI and in the file; all cases '
                'distinct by construction',
        'common_cases': len(ccases), 'backend_cases': len(bcases), 'exclusive_cases': len(ecases), 'commands': cmds,
    })
    chk.assumptions += ['the effective value of an option is what reaches the public interface: the keyword arguments of '
                        'Repository(...) and of the backend constructor, and the password/key passed to init/unlock; a case whose '
                        'command never uses the option (e.g. the key for list-objects) has nothing to observe and is skipped',
                        'CLI/config modules re-imported per case (a real process runs main() once)',
                        'options placed after the sub-command, as the parsers require']
    return chk.finish()


if __name__ == '__main__':
    sys.exit(common.run_main(main))
