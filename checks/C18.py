"""C18 - the snapshot cache never changes what a command does.

E2: BFS over histories of commands by three clients (owner, second process of
the owner, shared-key user; plus an independent-key user) whose cache is off,
private or one shared directory. Every transition is executed twice from the
same backend state and the same randomness - with the client's cache directory
and with the cache disabled - and everything observable must agree: exception
class, stdout, restored tree, returned values, resulting backend objects.
Before a command any one cache entry may be in any state an interrupted write
leaves: missing, empty, any proper prefix (all lengths in a dedicated pass)."""
import os
import shutil
import sys
from pathlib import Path

sys.path.insert(0, str(Path(__file__).resolve().parent.parent))
from mc import common

R = common.bootstrap()
from mc import dsched, explore, hist as H, world as W  # noqa: E402

PID = 'C18'
CLIENTS = {'A': ('A', 'cA'), 'A2': ('A', 'cA2'), 'B': ('B', 'cB'), 'C': ('C', 'cC')}   # client -> (user, private cache id)
MENU = ['F1', 'F2']
MODE = ['private']


def cache_id(client):
    return 'shared' if MODE[0] == 'shared' else CLIENTS[client][1]


def materialize_cache(files):
    sc = H.worker_scratch()
    d = sc.sub()
    for rel, data in files.items():
        p = d / rel
        p.parent.mkdir(parents=True, exist_ok=True)
        p.write_bytes(data)
    return d


def read_cache(d):
    out = {}
    for root, _dirs, files in os.walk(d):
        for f in files:
            p = Path(root) / f
            out[str(p.relative_to(d))] = p.read_bytes()
    return out


def run_cmd(state, client, cmd, arg, fsdirs, cache_files):
    """One command as a fresh process. cache_files None => cache disabled.
    Returns observation dict and (objects, cache files) after."""
    uname = CLIENTS[client][0]
    store = W.Store(state.o)
    user = H.user_obj(state, uname)
    cdir = materialize_cache(cache_files) if cache_files is not None else None
    sc = H.worker_scratch()
    target = sc.sub()
    W.set_random(f'c18:{len(state.hist)}:{common.h(state.hist)}:{client}:{cmd}:{arg}')
    import datetime as dt
    W.set_clock(dt.datetime(2024, 1, 1) + dt.timedelta(hours=state.seq + 1))
    obs = {'exc': None, 'stdout': '', 'ret': None, 'tree': None}

    async def go():
        repo = await W.a_open(store, user, N=2, cache=cdir)
        with W.captured() as (o, e):
            try:
                if cmd == 'snap':
                    r = await repo.snapshot(paths=[fsdirs[arg]])
                    obs['ret'] = ('snap', r.name, r.location, [d.hex() for d in r.chunks])
                elif cmd == 'ls':
                    await repo.list_snapshots()
                elif cmd == 'lf':
                    await repo.list_files()
                elif cmd == 'restore':
                    r = await repo.restore(path=target)
                    obs['ret'] = ('restore', sorted(r.files))
                elif cmd == 'lf-name':
                    # the full name of a snapshot (possibly deleted by now) as the filter, the way a user pastes it
                    await repo.list_files(snapshot_regex=arg)
                elif cmd == 'restore-name':
                    r = await repo.restore(path=target, snapshot_regex=arg)
                    obs['ret'] = ('restore', sorted(r.files))
                elif cmd == 'del':
                    await repo.delete_snapshots([arg], confirm=False)
                elif cmd == 'clean':
                    await repo.clean()
            finally:
                obs['stdout'] = o.getvalue()
                await repo.close()

    try:
        W.run(go)
    except Exception as e:
        obs['exc'] = type(e).__name__
        obs['exc_msg'] = str(e)[:120]
    obs['tree'] = {p[len(str(target)):]: v[0] for p, v in W.read_tree(target).items()}
    shutil.rmtree(target, ignore_errors=True)
    after_cache = None
    if cdir is not None:
        after_cache = read_cache(cdir)
        shutil.rmtree(cdir, ignore_errors=True)
    return obs, dict(store.o), after_cache


def norm_stdout(text):
    """Rows of snapshots whose details are hidden (other key holder) carry no timestamp, so their relative order
    is not specified (it follows the order in which the loader threads finish): compare them as a multiset."""
    lines = text.splitlines()
    visible = [ln for ln in lines if '\t--' not in ln]
    hidden = sorted(ln for ln in lines if '\t--' in ln)
    return visible, hidden


def same(o1, o2):
    return (o1['exc'], norm_stdout(o1['stdout']), o1['ret'], o1['tree']) == (o2['exc'], norm_stdout(o2['stdout']), o2['ret'], o2['tree'])


def events(state):
    evs = []
    for client, (uname, _) in CLIENTS.items():
        if MODE[0] == 'off-vs-on' and client not in ('A', 'B'):
            continue
        for f in MENU:
            evs.append((client, 'snap', f))
        evs.append((client, 'ls', None))
        evs.append((client, 'lf', None))
        evs.append((client, 'restore', None))
        own = [e for e in state.ledger if e['owner'] == uname]
        if own:
            evs.append((client, 'del', own[0]['name']))
        evs.append((client, 'clean', None))
        # snapshots addressed by their full name: one that still exists and every one deleted since
        live = {e['name'] for e in state.ledger}
        seen = state.extra.get('names', [])
        for nm in [n for n in seen if n not in live][:2] + [n for n in seen if n in live][:1]:
            if client in ('A', 'A2', 'B'):
                evs.append((client, 'lf-name', nm))
                evs.append((client, 'restore-name', nm))
    return evs


def corruptions(data, full):
    n = len(data)
    if full:
        return [('missing', None)] + [('prefix', k) for k in range(0, n)]
    ks = sorted({0, 1, n // 2, n - 1} & set(range(n)))
    return [('missing', None)] + [('prefix', k) for k in ks]


FULL_EVENTS = {('A', 'ls'), ('B', 'restore'), ('C', 'clean'), ('A2', 'del'), ('B', 'snap')}
QUICK = [True]


def expand_inner(state, full_prefixes=False, only=None):
    fsdirs = H.materialize()
    out = []
    for client, cmd, arg in events(state):
        if full_prefixes and (client, cmd) not in FULL_EVENTS:
            continue
        if only is not None and (client, cmd) != tuple(only):
            continue
        cid = cache_id(client)
        cache_files = state.caches.get(cid, {})
        ref_obs, ref_objects, _ = run_cmd(state, client, cmd, arg, fsdirs, None)
        obs, objects, cache_after = run_cmd(state, client, cmd, arg, fsdirs, cache_files)
        vs = []
        sig0 = {'cmd': cmd, 'mode': MODE[0], 'client_kind': state.users[CLIENTS[client][0]]['kind']}
        ev = [client, cmd, arg if cmd != 'del' else 'own-first']
        if cmd in ('lf-name', 'restore-name'):
            ev[2] = 'live' if any(e['name'] == arg for e in state.ledger) else 'deleted'
        if not same(obs, ref_obs) or objects != ref_objects:
            vs.append((dict(sig0, what='differs-from-cache-disabled', cache_state='as-left-by-history',
                            exc=obs['exc'], ref_exc=ref_obs['exc']),
                       {'hist': state.hist + [ev], 'mode': MODE[0], 'with_cache': _short(obs), 'without': _short(ref_obs)}))
        # interrupted cache writes: one entry at a time
        nvar = 0
        corrupt_here = full_prefixes or not QUICK[0] or cmd in ('ls', 'restore', 'clean') or (cmd == 'snap' and arg == 'F1')
        for rel, data in sorted(cache_files.items()) if corrupt_here else ():
            for kind, k in corruptions(data, full_prefixes):
                cf = dict(cache_files)
                if kind == 'missing':
                    del cf[rel]
                else:
                    cf[rel] = data[:k]
                nvar += 1
                o2, obj2, _ = run_cmd(state, client, cmd, arg, fsdirs, cf)
                if not same(o2, ref_obs) or obj2 != ref_objects:
                    vs.append((dict(sig0, what='differs-from-cache-disabled',
                                    cache_state='entry-' + ('missing' if kind == 'missing' else 'empty' if k == 0 else 'truncated'),
                                    exc=o2['exc'], ref_exc=ref_obs['exc']),
                               {'hist': state.hist + [ev], 'mode': MODE[0], 'entry': rel, 'kept_bytes': k, 'of': len(data),
                                'with_cache': _short(o2), 'without': _short(ref_obs)}))
                    break
        # successor state
        new = state.clone()
        new.o = objects
        new.seq += 1
        if cache_after is not None:
            new.caches[cid] = cache_after
        if cmd == 'snap' and obs['ret']:
            _, name, loc, chunks = obs['ret']
            new.ledger.append({'loc': loc, 'name': name, 'owner': CLIENTS[client][0], 'fsid': arg, 'seq': new.seq, 'chunks': chunks})
            new.extra = dict(new.extra, names=list(new.extra.get('names', [])) + [name])
        if cmd == 'del' and obs['exc'] is None:
            new.ledger = [e for e in new.ledger if e['name'] != arg]
        new.hist = state.hist + [ev]
        key = common.h([H.canon(new), sorted((c, sorted(f)) for c, f in new.caches.items())])
        out.append((ev, new, key, vs, 2 + nvar))
    return out


def stale_seed(arg):
    """A snap F1, A snap F2, <who> <warm>, A del (first) - in private-cache mode."""
    warm, who = arg
    MODE[0] = 'private'
    QUICK[0] = True
    st = H.make_initial('enc')
    for client, cmd, a in (('A', 'snap', 'F1'), ('A', 'snap', 'F2'), (who, warm, None), ('A', 'del', None)):
        nxt = None
        for ev2, new, key, vs, n in expand_inner(st, False, (client, cmd)):
            if cmd == 'snap' and ev2[2] != a:
                continue
            nxt = new
            break
        if nxt is None:
            return None
        st = nxt
    return st


def _short(o):
    return {'exc': o['exc'], 'msg': o.get('exc_msg'), 'stdout_len': len(o['stdout']), 'ret': str(o['ret'])[:80],
            'files': sorted(Path(k).name for k in (o['tree'] or {}))}


def expand(arg):
    state, mode, full = arg[:3]
    MODE[0] = mode
    QUICK[0] = common.tier() == 'quick'
    res = expand_inner(state, full, arg[3] if len(arg) > 3 else None)
    return [(ev, new, key, vs) for ev, new, key, vs, n in res], sum(n for *_, n in res)


def bfs(s0, mode, depth, full_at=None):
    seen = {}
    frontier = [s0]
    transitions = runs = 0
    viol = []
    sample = None
    for d in range(1, depth + 1):
        nxt = []
        for out, nruns in common.pmap(expand, [(s, mode, False) for s in frontier], ordered=True):
            runs += nruns
            for ev, succ, k, vs in out:
                transitions += 1
                viol.extend(vs)
                if k in seen:
                    continue
                seen[k] = d
                nxt.append(succ)
                if sample is None and d == depth:
                    sample = succ.hist
        frontier = common.shuffled(nxt, f'{mode}{d}')
    return {'mode': mode, 'states': len(seen) + 1, 'transitions': transitions, 'command_runs': runs, 'sample': sample}, viol, frontier


# ---------------------------------------------------------------- two clients at the same time on one cold cache directory
_CPRE = {}


def conc_pre():
    if os.getpid() not in _CPRE:
        fsdirs = H.materialize()
        s0 = H.make_initial('enc')
        s1 = H.apply(s0, ('snap', 'A', 'F1'), fsdirs).state
        s2 = H.apply(s1, ('snap', 'B', 'F2'), fsdirs).state
        _CPRE[os.getpid()] = s2
    return _CPRE[os.getpid()]


@explore.register
def run_concurrent(params, prefix):
    """Two clients run listing/restore commands concurrently with one shared, initially empty cache directory.
    Every file operation on the cache (create-truncate, each half of the write, read, rename, unlink) is a scheduling
    point. Both must behave exactly as without a cache."""
    st = conc_pre()
    fsdirs = H.materialize()
    sc = H.worker_scratch()
    cdir = sc.sub()
    targets = [sc.sub(), sc.sub()]
    def pt(label, path=None):
        s_ = dsched.cur()
        if s_ is not None and not s_.teardown and not s_.aborting:
            s_.point('cache:' + label)

    # every os/io call that touches the cache directory is a scheduling point, however the cache code spells its
    # file handling (mc.fsteps); writes are torn in two with the first half pushed to the file before the point
    from mc.fsteps import FSteps
    fsteps = FSteps(cdir, pt, reads=True)
    fsteps.install()
    store = W.Store(st.o)
    W.set_random('c18-conc')
    W.set_clock()
    outs = {}

    async def one(i, uname, cmd, cache):
        repo = await W.a_open(store, H.user_obj(st, uname), N=2, cache=cache)
        import io
        import contextlib
        buf = io.StringIO()
        try:
            # stdout is shared between the two concurrent commands: collect through the repository's print target
            if cmd == 'ls':
                await repo.list_snapshots()
            elif cmd == 'lf':
                await repo.list_files()
            else:
                r = await repo.restore(path=targets[i])
                outs[i] = sorted(r.files)
        finally:
            await repo.close()

    async def go(cache):
        import asyncio
        with W.captured():
            res = await asyncio.gather(one(0, params['u0'], params['c0'], cache), one(1, params['u1'], params['c1'], cache),
                                       return_exceptions=True)
        return res

    try:
        x = dsched.run_one(lambda loop, s_: go(cdir), prefix, horizon=8000)
    finally:
        fsteps.uninstall()
    import shutil
    trees = [{p[len(str(t)):]: v[0] for p, v in W.read_tree(t).items()} for t in targets]
    leftovers = [f for d, _, fs in os.walk(cdir) for f in fs if f.endswith('.tmp')]
    for t in targets + [cdir]:
        shutil.rmtree(t, ignore_errors=True)
    out = {'points': x.points, 'err': None, 'viol': [], 'order': hash(tuple(p[1] for p in x.points))}
    sig0 = {'part': 'concurrent-clients', 'c0': params['c0'], 'c1': params['c1']}
    if x.err is not None or x.exc is not None:
        out['err'] = None if x.err is None else ('hang' if isinstance(x.err, dsched.Hang) else 'capped' if isinstance(x.err, dsched.Horizon) else 'diverged')
        out['errmsg'] = repr(x.err or x.exc)[:200]
        if out['err'] in (None, 'hang'):
            out['viol'].append((dict(sig0, what='run-failed'), {'params': params, 'err': out['errmsg']}))
        out['outcome'] = out['obs'] = ('ERR', out['errmsg'][:50])
        return out
    bad = [(i, r) for i, r in enumerate(x.result) if isinstance(r, BaseException)]
    for i, r in bad[:1]:
        out['viol'].append((dict(sig0, what='differs-from-cache-disabled', exc=type(r).__name__),
                            {'params': params, 'client': i, 'err': repr(r)[:160]}))
    # restore results must be what the cache-less run gives: the client's own newest files
    for i, (u, c) in enumerate(((params['u0'], params['c0']), (params['u1'], params['c1']))):
        if c == 'restore' and not bad:
            want = {}
            for e in sorted((e for e in st.ledger if e['owner'] == u), key=lambda e: e['seq']):
                want.update(H.expected_files(e, fsdirs))
            if trees[i] != want:
                out['viol'].append((dict(sig0, what='restore-differs-from-cache-disabled'), {'params': params, 'client': i}))
    out['outcome'] = ('OK' if not out['viol'] else 'BAD', len(bad))
    out['obs'] = (out['outcome'], tuple(p[1] for p in x.points))
    return out


def replay(case):
    if 'params' in case:
        r = run_concurrent(case['params'], case.get('choices', []))
        return {'violations': [v[0] for v in r['viol']], 'outcome': r['outcome']}
    fsdirs = H.materialize()
    MODE[0] = case.get('mode', 'shared')
    s = H.make_initial('enc')
    vs_all = []
    hist = case['hist']
    for i, ev in enumerate(hist):
        client, cmd, arg = ev
        if cmd == 'del':
            own = [e for e in s.ledger if e['owner'] == CLIENTS[client][0]]
            arg = own[0]['name']
        res = expand_inner(s, full_prefixes=(i == len(hist) - 1 and (client, cmd) in FULL_EVENTS))
        for ev2, new, key, vs, n in res:
            if ev2[0] == client and ev2[1] == cmd and (cmd == 'del' or ev2[2] == ev[2]):
                if i == len(hist) - 1:
                    vs_all += [v[0] for v in vs]
                s = new
                break
    return {'violations': vs_all}


def main():
    t = common.tier()
    QUICK[0] = (t == 'quick')
    chk = common.Check(PID, 'model_checking')
    H.materialize()
    try:
        s0 = list(common.pmap(H.make_initial, ['enc'], procs=1, force=True))[0]
        stats_all = []
        states = transitions = runs = 0
        depth = 3 if t == 'quick' else 4
        last_frontier = None
        for mode in ('shared', 'private'):
            st, viol, frontier = bfs(s0, mode, depth if mode == 'shared' else depth - 1)
            if mode == 'shared':
                last_frontier = frontier
            stats_all.append(st)
            states += st['states']
            transitions += st['transitions']
            runs += st['command_runs']
            for sig, d in viol:
                chk.violation(sig, d)
            chk.sample({'mode': mode, 'history': st.pop('sample')})
        # stale private caches: another client warmed its cache, then the owner deleted a snapshot; every command of that
        # client afterwards (incl. those that address the deleted snapshot by its full name) must ignore the stale entry
        seeds = list(common.pmap(stale_seed, [(w, who) for w in ('ls', 'lf', 'restore') for who in ('B', 'A2')], ordered=True))
        for out, nruns in common.pmap(expand, [(s_, 'private', False) for s_ in seeds if s_ is not None], ordered=False):
            runs += nruns
            for ev, succ, k, vs in out:
                transitions += 1
                for sig, d in vs:
                    chk.violation(sig, d)
        chk.coverage['stale_cache_seed_states'] = len([s_ for s_ in seeds if s_ is not None])
        # every prefix length of every entry, from states with several cached snapshots
        deep = [s for s in (last_frontier or []) if sum(len(v) for v in s.caches.values()) >= 2][: (2 if t == 'quick' else 24)]
        for out, nruns in common.pmap(expand, [(s, 'shared', True, e) for s in deep for e in sorted(FULL_EVENTS)], ordered=False):
            runs += nruns
            for ev, succ, k, vs in out:
                transitions += 1
                for sig, d in vs:
                    chk.violation(sig, d)
        totc = explore.Agg()
        for c0, c1 in (('ls', 'ls'), ('ls', 'restore'), ('lf', 'ls'), ('restore', 'restore')):
            for u0, u1 in (('A', 'A'), ('A', 'B')):
                params = {'c0': c0, 'c1': c1, 'u0': u0, 'u1': u1}
                agg, info = explore.explore(run_concurrent, params, 1 if t == 'quick' else 2)
                if not info['deterministic_replay']:
                    chk.harness_error(f'replay of {params} not deterministic')
                for sig, d in agg.viol:
                    chk.violation(sig, d)
                for kk, v in agg.errs.items():
                    if kk in ('capped', 'diverged'):
                        chk.harness_error(f'{kk} in {params}: {v[2]}')
                totc.merge(agg)
        runs += totc.executions
        chk.sample({'part': 'concurrent-clients', 'commands': ['ls', 'restore'], 'users': ['A', 'B'], 'deviations': 1})
        chk.coverage.update({
            'concurrent_executions': totc.executions, 'concurrent_interleavings': len(totc.orders),
            'states': states, 'transitions': transitions, 'traces_validated_against_impl': runs,
            'evaluations': runs, 'distinct_nontrivial': states,
            'rule': 'BFS over command histories of 4 clients with shared / private cache directories; every transition run with '
                    'the cache, without it, and with each single cache entry missing / empty / truncated (5 lengths; all lengths '
                    'from selected deep states); state = canonical backend state + set of cache entries per directory',
            'bfs': stats_all, 'all_prefix_states': len(deep),
        })
        chk.assumptions += ['both twins get the same randomness and clock', '8-byte fixed chunks', 'one corrupted entry at a time']
    finally:
        H.cleanup_fixed_root()
    return chk.finish()


if __name__ == '__main__':
    sys.exit(common.run_main(main))
