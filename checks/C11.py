"""C11 - chunk boundaries are content-defined and re-synchronise after edits.

E3 (real adapter + C++ rebuilt from the working tree):
 (suffix)   every suffix S over a 3-word alphabet x every pair of aligned prefixes: from the first common
            boundary on, chunks coincide up to the tail zone.
 (locality) changing any byte at or after start+max+4 never changes the chunk that starts at `start`.
 (resync)   a fixed family of high-entropy streams (enumerated completely; VERIF_SEED selects the family) x
            aligned insert/delete/replace edits at every aligned position of a window: every chunk starting more
            than D = 1024*max bytes after the edit is byte-identical to the unedited run.
 (keys)     distinct keys give distinct boundary sets on every stream of the family."""
import hashlib
import itertools
import sys
from pathlib import Path

sys.path.insert(0, str(Path(__file__).resolve().parent.parent))
from mc import common

R = common.bootstrap()
import replicat.utils.adapters as A  # noqa: E402

PID = 'C11'
KEYS = [b'\xff' * 16, bytes(range(1, 17)), b'\x01' + b'\x00' * 7 + b'\x80' * 8,
        bytes(range(16, 0, -1)), b'\x5a' * 16]
WORDS = [b'\x00\x00\x00\x00', b'\x01\x02\x03\x04', b'\xff\xfe\xfd\xfc']


def bounds(ad, data, key, piece=None):
    pieces = [data] if piece is None else [data[i:i + piece] for i in range(0, len(data), piece)] or [b'']
    out, pos = [], 0
    for c in ad(iter(pieces), params=key):
        pos += len(c)
        out.append(pos)
    return out


def words(n):
    for combo in itertools.product(range(len(WORDS)), repeat=n):
        yield b''.join(WORDS[i] for i in combo)


def suffix_case(args):
    mn, mx, ki, nwords = args
    key = KEYS[ki]
    ad = A.gclmulchunker(min_length=mn, max_length=mx)
    prefixes = [b''] + list(words(1)) + list(words(2))
    vs = []
    n = 0
    nontrivial = 0
    sig0 = {'part': 'suffix'}
    for w in range(max(1, nwords - 1), nwords + 1):
        for S in words(w):
            rel = []
            for P in prefixes:
                b = bounds(ad, P + S, key)
                # boundaries as offsets into S (0 = S starts on a boundary)
                r = {x - len(P) for x in [0] + b if x - len(P) >= 0}
                rel.append(r)
            limit = len(S) - 2 * mx   # chunks starting before this offset of S are outside the tail zone
            for i in range(len(prefixes)):
                for j in range(i + 1, len(prefixes)):
                    n += 1
                    common_b = sorted(rel[i] & rel[j])
                    if not common_b:
                        continue
                    c = common_b[0]
                    # chunks starting at offsets in [c, limit): their end boundaries must coincide
                    a = sorted(x for x in rel[i] if x >= c)
                    b = sorted(x for x in rel[j] if x >= c)
                    ka = [(s, e) for s, e in zip(a, a[1:]) if s < limit]
                    kb = [(s, e) for s, e in zip(b, b[1:]) if s < limit]
                    if ka:
                        nontrivial += 1
                    if ka != kb:
                        vs.append((dict(sig0, what='chunks-differ-after-common-boundary'),
                                   {'min': mn, 'max': mx, 'key': key, 'S': S, 'P1': prefixes[i], 'P2': prefixes[j],
                                    'first_common': c, 'chunks1': ka[:6], 'chunks2': kb[:6]}))
    return n, nontrivial, vs


def locality_case(args):
    mn, mx, ki, nwords = args
    key = KEYS[ki]
    ad = A.gclmulchunker(min_length=mn, max_length=mx)
    vs = []
    n = nontrivial = 0
    sig0 = {'part': 'locality'}
    for X in words(nwords):
        b0 = [0] + bounds(ad, X, key)
        limit = len(X) - 2 * mx
        chunks0 = {s: e for s, e in zip(b0, b0[1:]) if s < limit}
        if not chunks0:
            continue
        for j in range(len(X)):
            for delta in (0x01, 0x80):
                Y = X[:j] + bytes([X[j] ^ delta]) + X[j + 1:]
                n += 1
                b1 = [0] + bounds(ad, Y, key)
                chunks1 = dict(zip(b1, b1[1:]))
                for s, e in chunks0.items():
                    if j >= s + mx + 4:
                        nontrivial += 1
                        if chunks1.get(s) != e:
                            vs.append((dict(sig0, what='cut-depends-on-distant-byte'),
                                       {'min': mn, 'max': mx, 'key': key, 'X': X, 'byte': j, 'start': s, 'end': e,
                                        'end_after_change': chunks1.get(s)}))
                            break
    return n, nontrivial, vs


def stream(family, i, n):
    out = bytearray()
    ctr = 0
    while len(out) < n:
        out += hashlib.sha256(f'{family}:{i}:{ctr}'.encode()).digest()
        ctr += 1
    return bytes(out[:n])


def chunk_map(ad, data, key, empty_at=None):
    """start offset -> chunk bytes, fed in 4 KiB pieces (optionally with an empty piece
    after piece number `empty_at`: how the stream is handed over must not matter)."""
    out, pos = {}, 0
    pieces = [data[i:i + 4096] for i in range(0, len(data), 4096)]
    if empty_at is not None:
        pieces.insert(empty_at, b'')
    for c in ad(iter(pieces), params=key):
        out[pos] = c
        pos += len(c)
    return out


def resync_case(args):
    mn, mx, ki, family, idx, positions = args
    key = KEYS[ki]
    ad = A.gclmulchunker(min_length=mn, max_length=mx)
    L = 1200 * mx
    D = 1024 * mx
    X = stream(family, idx, L)
    empty_at = (8 * mx + 4 * 64 + D) // 4096 + 3   # an empty piece well inside the far zone
    base = chunk_map(ad, X, key, empty_at)
    vs = []
    n = nontrivial = 0
    sig0 = {'part': 'resync'}
    maxdist = 0
    for pos in positions:
        for kind in ('insert', 'delete', 'replace'):
            for ln in (4, 8, 32):
                filler = stream(family + '-edit', idx * 1000 + pos + ln, ln)
                if kind == 'insert':
                    Y, shift, edit_end = X[:pos] + filler + X[pos:], ln, pos + ln
                elif kind == 'delete':
                    Y, shift, edit_end = X[:pos] + X[pos + ln:], -ln, pos
                else:
                    Y, shift, edit_end = X[:pos] + filler + X[pos + ln:], 0, pos + ln
                n += 1
                got = chunk_map(ad, Y, key, empty_at)
                # chunks of Y that start more than D after the edit and before the tail zone
                lo, hi = edit_end + D, len(Y) - 2 * mx
                far = {s: c for s, c in got.items() if lo < s < hi}
                if far:
                    nontrivial += 1
                bad = [s for s, c in far.items() if base.get(s - shift) != c]
                # how far did re-synchronisation actually take (first common boundary after the edit)?
                sync = next((s for s in sorted(got) if s >= edit_end and (s - shift) in base), None)
                if sync is not None:
                    maxdist = max(maxdist, sync - edit_end)
                if bad or not far:
                    vs.append((dict(sig0, what='not-resynchronised' if bad else 'vacuous'),
                               {'min': mn, 'max': mx, 'key': key, 'family': family, 'stream': idx, 'edit': [kind, pos, ln],
                                'first_bad_chunk_at': bad[:1], 'first_common_boundary': sync}))
    return n, nontrivial, vs, maxdist


def keys_case(args):
    mn, mx, family, idx = args
    ad = A.gclmulchunker(min_length=mn, max_length=mx)
    X = stream(family, idx, 200 * mx)
    bs = [tuple(bounds(ad, X, k, piece=4096)) for k in KEYS]
    vs = []
    n = 0
    for i in range(len(KEYS)):
        for j in range(i + 1, len(KEYS)):
            n += 1
            if bs[i] == bs[j]:
                vs.append(({'part': 'keys', 'what': 'same-boundaries-for-different-keys'},
                           {'min': mn, 'max': mx, 'family': family, 'stream': idx, 'keys': [KEYS[i], KEYS[j]]}))
    # one adapter object used with key A then key B must not stick to A
    ad2 = A.gclmulchunker(min_length=mn, max_length=mx)
    first = tuple(bounds(ad2, X, KEYS[0], piece=4096))
    second = tuple(bounds(ad2, X, KEYS[1], piece=4096))
    n += 1
    if second != bs[1] or first != bs[0]:
        vs.append(({'part': 'keys', 'what': 'key-ignored-on-reused-adapter'},
                   {'min': mn, 'max': mx, 'family': family, 'stream': idx}))
    return n, n, vs


def replay(case):
    mn, mx = case['min'], case['max']
    key = bytes.fromhex(case['key']['!hex']) if 'key' in case else None
    if 'edit' in case:
        kind, pos, ln = case['edit']
        n, nt, vs, _ = resync_case((mn, mx, KEYS.index(key), case['family'], case['stream'], [pos]))
        return {'violations': [v[0] for v in vs if v[1]['edit'] == [kind, pos, ln]]}
    if 'S' in case:
        S = bytes.fromhex(case['S']['!hex'])
        n, nt, vs = suffix_case((mn, mx, KEYS.index(key), len(S) // 4))
        return {'violations': [v[0] for v in vs][:3]}
    if 'X' in case:
        X = bytes.fromhex(case['X']['!hex'])
        n, nt, vs = locality_case((mn, mx, KEYS.index(key), len(X) // 4))
        return {'violations': [v[0] for v in vs][:3]}
    n, nt, vs = keys_case((mn, mx, case['family'], case['stream']))
    return {'violations': [v[0] for v in vs]}


def main():
    t = common.tier()
    chk = common.Check(PID, 'exploration')
    family = f'fam{common.seed()}'
    small = [(4, 8), (1, 4), (4, 12), (8, 8), (5, 10)] if t == 'quick' else \
        [(4, 8), (1, 4), (4, 12), (8, 8), (5, 10), (4, 9), (2, 6), (4, 16), (8, 12)]
    nkeys = 2 if t == 'quick' else 3
    nwords = 7 if t == 'quick' else 8
    tot = nt = 0
    cases = [(mn, mx, ki, nwords) for mn, mx in small for ki in range(nkeys)]
    for n, x, vs in common.pmap(suffix_case, common.shuffled(cases, 's'), ordered=False):
        tot += n
        nt += x
        for sig, d in vs:
            chk.violation(sig, d)
    chk.sample({'part': 'suffix', 'min': 4, 'max': 8, 'S_words': nwords, 'prefixes': 'all of <= 2 words'})
    lcases = [(mn, mx, ki, nwords if mx <= 8 else nwords + 1) for mn, mx in small[:4] for ki in range(nkeys)]
    for n, x, vs in common.pmap(locality_case, common.shuffled(lcases, 'l'), ordered=False):
        tot += n
        nt += x
        for sig, d in vs:
            chk.violation(sig, d)
    nstreams, npos = (12, 8) if t == 'quick' else (128, 32)
    rcases = []
    for mn, mx in ((4, 64), (8, 128)):
        positions = [8 * mx + 4 * k for k in range(npos)]
        for i in range(nstreams):
            rcases.append((mn, mx, i % nkeys, family, i, positions))
    maxdist = 0
    rruns = 0
    for n, x, vs, md in common.pmap(resync_case, common.shuffled(rcases, 'r'), ordered=False):
        tot += n
        rruns += n
        nt += x
        maxdist = max(maxdist, md)
        for sig, d in vs:
            chk.violation(sig, d)
    chk.sample({'part': 'resync', 'min': 4, 'max': 64, 'family': family, 'stream': 0, 'edit': ['insert', 512, 8]})
    kcases = [(mn, mx, family, i) for mn, mx in ((4, 64), (8, 128), (4, 32)) for i in range(nstreams)]
    for n, x, vs in common.pmap(keys_case, kcases, ordered=False):
        tot += n
        nt += x
        for sig, d in vs:
            chk.violation(sig, d)
    chk.coverage.update({
        'evaluations': tot, 'distinct_nontrivial': nt,
        'rule': 'suffix: all S of nwords-1..nwords words x all pairs of the 13 aligned prefixes (non-trivial: a compared chunk '
                'exists outside the tail zone); locality: all streams of nwords words x every byte x 2 flips x every chunk; '
                'resync: stream family x 3 edit kinds x 3 lengths x every aligned position of the window (non-trivial: a far '
                'chunk exists); keys: all key pairs per stream',
        'resync_runs': rruns, 'resync_max_observed_distance_bytes': maxdist, 'resync_bound_bytes': '1024*max',
        'stream_family': family, 'streams': nstreams, 'positions_per_stream': npos, 'param_pairs_small': small,
    })
    chk.assumptions += ['re-synchronisation bound is probabilistic for high-entropy data (failure < 1e-33 per case under the '
                        'independence idealisation of the hash); the family is fixed by VERIF_SEED and enumerated completely']
    return chk.finish()


if __name__ == '__main__':
    sys.exit(common.run_main(main))
