"""C20 - the bandwidth limit is respected and transparent to the data.

E1 with a virtual wall clock: k streams on one RateLimitedIO, each a controlled
thread doing a few reads (or writes) through the real wrapper; the underlying
stream takes a configurable virtual latency per call; time.sleep / perf_counter
of replicat.utils are virtual (sleep exact, or overslept by 10%). All schedules
with <= d deviations. Oracle: for every pair of transfer instants the bytes
passed in between stay within L*T + burst allowance; bytes arrive complete and in
order. Transparency: every operation sequence of length <= 4 through the
limiter and the tqdm wrappers against a plain BytesIO."""
import io
import itertools
import sys
import types
from pathlib import Path

sys.path.insert(0, str(Path(__file__).resolve().parent.parent))
from mc import common

R = common.bootstrap()
from mc import dsched, explore  # noqa: E402
import replicat.utils as U  # noqa: E402

PID = 'C20'


class VTime:
    """Stand-in for the `time` module inside replicat.utils."""

    def __init__(self):
        self.oversleep = 1.0

    def perf_counter(self):
        s = dsched.cur()
        return s.vclock if s else 0.0

    def sleep(self, seconds):
        s = dsched.cur()
        if s is not None:
            s.vsleep(seconds * self.oversleep, 'time.sleep')

    def __getattr__(self, name):
        import time
        return getattr(time, name)


VT = VTime()
U.time = VT
U.threading = types.SimpleNamespace(Lock=dsched.CLock)


class SlowStream(io.BytesIO):
    """Underlying stream whose every read/write takes `latency(n)` virtual seconds."""

    def __init__(self, data, latency, log, sid):
        super().__init__(data)
        self.latency, self.log, self.sid = latency, log, sid

    def read(self, n=-1):
        data = super().read(n)
        s = dsched.cur()
        s.vsleep(self.latency(len(data)), 'io')
        self.log.append((s.vclock, len(data), self.sid))
        return data

    def write(self, b):
        n = super().write(b)
        s = dsched.cur()
        s.vsleep(self.latency(n), 'io')
        self.log.append((s.vclock, n, self.sid))
        return n


@explore.register
def run_streams(params, prefix):
    L, k, sizes, lat_mode, direction, oversleep = (params['L'], params['k'], params['sizes'], params['lat'], params['dir'],
                                                   params['oversleep'])
    VT.oversleep = oversleep
    log = []
    outs = {}

    def latency(n):
        nominal = n / L
        return {'zero': 0.0, 'half': nominal / 2, 'exact': nominal, 'double': 2 * nominal}[lat_mode]

    def make_worker(limiter, sid):
        payload = bytes((sid * 50 + i) & 0xFF for i in range(sum(sizes)))

        def work():
            if direction == 'read':
                under = SlowStream(payload, latency, log, sid)
                w = limiter.wrap(under)
                got = b''
                for n in sizes:
                    got += w.read(n)
                outs[sid] = (got, payload)
            else:
                under = SlowStream(b'', latency, log, sid)
                w = limiter.wrap(under)
                pos = 0
                for n in sizes:
                    w.write(payload[pos:pos + n])
                    pos += n
                outs[sid] = (under.getvalue(), payload)
        return work

    async def go():
        s = dsched.cur()
        limiter = U.RateLimitedIO(L)
        recs = [s.spawn(make_worker(limiter, i), f'stream{i}') for i in range(k)]
        s.block_until(lambda: all(r.done for r in recs), 'join-streams')
        return True

    x = dsched.run_one(lambda loop, s: go(), prefix, horizon=4000)
    out = {'points': x.points, 'err': None, 'viol': []}
    sig0 = {'k_ge_2': k >= 2, 'latency_nonzero': lat_mode != 'zero', 'dir': direction}
    if x.err is not None or x.exc is not None:
        out['err'] = None if x.err is None else ('hang' if isinstance(x.err, dsched.Hang) else
                                                 'capped' if isinstance(x.err, dsched.Horizon) else 'diverged')
        out['errmsg'] = repr(x.err or x.exc)[:200]
        out['viol'].append((dict(sig0, what='run-failed'), {'params': params, 'err': out['errmsg']}))
        out['outcome'] = out['obs'] = ('ERR',)
        return out
    # data integrity
    for sid, (got, want) in outs.items():
        if got != want:
            out['viol'].append((dict(sig0, what='data-altered'), {'params': params, 'stream': sid}))
    # window oracle over every pair of transfer instants
    ev = sorted(log)
    allowance = L * U.RateLimitedIO.PAUSE_LIMIT + k * max(sizes)
    worst = 0.0
    bad = None
    for i in range(len(ev)):
        tot = 0
        for j in range(i, len(ev)):
            tot += ev[j][1]
            T = ev[j][0] - ev[i][0]
            excess = tot - (L * T + allowance)
            if excess > worst + 1e-9:
                worst = excess
                bad = (ev[i][0], ev[j][0], tot)
    if bad is not None:
        out['viol'].append((dict(sig0, what='window-exceeded'),
                            {'params': params, 'window': bad, 'allowed': L * (bad[1] - bad[0]) + allowance,
                             'rate_over_window': bad[2] / max(bad[1] - bad[0], 1e-9)}))
    total_t = ev[-1][0] if ev else 0
    out['outcome'] = ('OK', round(total_t, 6), bad is not None)
    out['obs'] = (out['outcome'], tuple(ev))
    out['order'] = hash(tuple((e[1], e[2]) for e in ev))
    return out


# ---------------------------------------------------------------- transparency
OPS = [('read', 3), ('read', -1), ('read', 0), ('write', b'xy'), ('write', b''), ('write', b'0123456789'), ('seek', 0), ('seek', 2),
       ('seek', 0, 2), ('tell',), ('truncate',), ('truncate', 0), ('truncate', 3), ('truncate', 20)]


def apply_op(f, op):
    name = op[0]
    if name == 'read':
        return f.read(op[1])
    if name == 'write':
        return f.write(op[1])
    if name == 'seek':
        return f.seek(*op[1:])
    if name == 'tell':
        return f.tell()
    if name == 'truncate':
        return f.truncate(*op[1:])


def transparency_case(args):
    wrapper_kind, seqs = args
    VT.oversleep = 1.0
    import threading as _real_threading
    U.threading = _real_threading   # no scheduler in this part: the limiter gets real locks
    vs = []
    n = 0
    for seq in seqs:
        n += 1
        init = b'abcdefgh'
        model = io.BytesIO(init)
        model.seek(2)
        under = io.BytesIO(init)
        under.seek(2)
        lim = U.RateLimitedIO(10**12)
        if wrapper_kind == 'limiter':
            w = lim.wrap(under)
            allowed = {'read', 'write', 'seek', 'tell', 'truncate'}
        elif wrapper_kind == 'tqdm-reader':
            w = U.TQDMIOReader(lim.wrap(under), desc='', total=None, position=0, disable=True)
            allowed = {'read', 'seek', 'truncate'}
        else:
            w = U.TQDMIOWriter(lim.wrap(under), desc='', total=None, position=0, disable=True)
            allowed = {'write', 'seek', 'truncate'}
        if any(op[0] not in allowed for op in seq):
            continue
        if wrapper_kind != 'limiter' and any(op[0] == 'truncate' and len(op) == 1 for op in seq):
            pass
        try:
            for op in seq:
                got = apply_op(w, op)
                want = apply_op(model, op)
                if got != want:
                    vs.append(({'part': 'transparency', 'wrapper': wrapper_kind, 'what': 'return-value-differs', 'op': op[0]},
                               {'wrapper': wrapper_kind, 'seq': [list(map(repr, o)) for o in seq], 'got': repr(got), 'want': repr(want)}))
                    break
            else:
                if under.getvalue() != model.getvalue() or under.tell() != model.tell():
                    vs.append(({'part': 'transparency', 'wrapper': wrapper_kind, 'what': 'underlying-stream-differs'},
                               {'wrapper': wrapper_kind, 'seq': [list(map(repr, o)) for o in seq],
                                'got': repr(under.getvalue()), 'want': repr(model.getvalue())}))
        except Exception as e:
            vs.append(({'part': 'transparency', 'wrapper': wrapper_kind, 'what': 'exception', 'exc': type(e).__name__},
                       {'wrapper': wrapper_kind, 'seq': [list(map(repr, o)) for o in seq], 'err': repr(e)[:200]}))
    return n, vs


def replay(case):
    if 'params' in case:
        p = case['params']
        p['sizes'] = tuple(p['sizes'])
        r = run_streams(p, case.get('choices', []))
        return {'violations': [v[0] for v in r['viol']], 'outcome': r['outcome']}
    return {'violations': ['re-run ./check C20'], 'case': case}


def main():
    t = common.tier()
    chk = common.Check(PID, 'model_checking')
    plans = []
    for L in (100, 1000):
        small, mid, big = 1, L // 8, L // 4
        size_menus = [(big,) * 4, (mid, big, small, big), (small,) * 4, (big, mid, big, mid)]
        if t == 'thorough':
            size_menus += [(big,) * 6, (mid,) * 6, (big, small, big, small, big, small)]
        for k in (1, 2, 3):
            for sizes in size_menus:
                for lat in ('zero', 'half', 'exact', 'double'):
                    for direction in ('read', 'write'):
                        for oversleep in (1.0, 1.1):
                            if t == 'quick' and (oversleep != 1.0 and (lat != 'zero' or direction == 'write')):
                                continue
                            bound = (1 if k > 1 else 0) if t == 'quick' else (2 if k > 1 else 0)
                            plans.append(({'L': L, 'k': k, 'sizes': sizes, 'lat': lat, 'dir': direction, 'oversleep': oversleep}, bound))
    tot = explore.Agg()
    for params, bound in plans:
        agg, info = explore.explore(run_streams, params, bound)
        if not info['deterministic_replay']:
            chk.harness_error(f'non-deterministic replay {params}')
        for sig, d in agg.viol:
            chk.violation(sig, d)
        for kk, v in agg.errs.items():
            if kk in ('capped', 'diverged'):
                chk.harness_error(f'{kk}: {v[2]}')
        tot.merge(agg)
    chk.sample({'L': 100, 'k': 2, 'sizes': [25, 12, 1, 25], 'latency': 'exact', 'direction': 'read', 'deviations': 1})
    # transparency
    seqs = []
    for n in (1, 2, 3, 4):
        if n == 4 and t == 'quick':
            base = [o for o in OPS if o not in (('read', 0), ('write', b''), ('truncate', 20), ('seek', 2))]
        else:
            base = OPS
        seqs += list(itertools.product(base, repeat=n))
    batches = []
    for wk in ('limiter', 'tqdm-reader', 'tqdm-writer'):
        for i in range(0, len(seqs), 4000):
            batches.append((wk, seqs[i:i + 4000]))
    ntr = 0
    for n, vs in common.pmap(transparency_case, batches, ordered=False):
        ntr += n
        for sig, d in vs:
            chk.violation(sig, d)
    chk.sample({'part': 'transparency', 'wrapper': 'limiter', 'sequence': ['write(b"xy")', 'seek(0)', 'truncate()', 'read(-1)']})
    chk.coverage.update({
        'states': tot.executions, 'transitions': tot.total_points, 'traces_validated_against_impl': tot.executions,
        'evaluations': tot.executions + ntr, 'distinct_nontrivial': len(tot.orders) + ntr,
        'rule': 'limits {100,1000} x k in {1,2,3} streams x size patterns x 4 underlying latencies x read/write x exact/10% '
                'oversleep, every schedule within the deviation bound under a virtual clock, all windows between transfer '
                'instants; transparency: every sequence of <=4 operations per wrapper against BytesIO',
        'stream_configurations': len(plans), 'stream_executions': tot.executions, 'by_deviations': {str(a): b for a, b in tot.by_dev.items()},
        'transparency_sequences': ntr, 'allowance': 'L*0.5 + k*max(size)',
    })
    chk.assumptions += ['virtual time: computation is instantaneous, only underlying I/O and sleep take time']
    return chk.finish()


if __name__ == '__main__':
    sys.exit(common.run_main(main))
