"""C20 - the bandwidth limit is respected and transparent to the data.

E1 with a virtual wall clock: k streams on one RateLimitedIO, each a controlled
thread doing a few reads (or writes) through the real wrapper; the underlying
stream takes a configurable virtual latency per call; time.sleep / perf_counter
of replicat.utils are virtual (sleep exact, or overslept by 10%). All schedules
with <= d deviations. Oracle: for every pair of transfer instants the bytes
passed in between stay within L*T + burst allowance; bytes arrive complete and in
order. Transparency: every operation sequence of length <= 4 through the
limiter and the tqdm wrappers against a plain BytesIO."""
import io
import itertools
import sys
import types
from pathlib import Path

sys.path.insert(0, str(Path(__file__).resolve().parent.parent))
from mc import common

R = common.bootstrap()
from mc import dsched, explore, world as W  # noqa: E402
import replicat.utils as U  # noqa: E402

PID = 'C20'


VT = W.install_virtual_time()     # clock, sleep and locks of replicat.utils, however they are imported


class SlowStream(io.BytesIO):
    """Underlying stream whose every read/write takes `latency(n)` virtual seconds."""

    def __init__(self, data, latency, log, sid):
        super().__init__(data)
        self.latency, self.log, self.sid = latency, log, sid

    def read(self, n=-1):
        data = super().read(n)
        s = dsched.cur()
        s.vsleep(self.latency(len(data)), 'io')
        self.log.append((s.vclock, len(data), self.sid))
        return data

    def write(self, b):
        n = super().write(b)
        s = dsched.cur()
        s.vsleep(self.latency(n), 'io')
        self.log.append((s.vclock, n, self.sid))
        return n


@explore.register
def run_streams(params, prefix):
    L, k, sizes, lat_mode, direction, oversleep = (params['L'], params['k'], params['sizes'], params['lat'], params['dir'],
                                                   params['oversleep'])
    VT.oversleep = oversleep
    log = []
    outs = {}

    def latency(n):
        nominal = n / L
        return {'zero': 0.0, 'half': nominal / 2, 'exact': nominal, 'double': 2 * nominal}[lat_mode]

    def make_worker(limiter, sid):
        payload = bytes((sid * 50 + i) & 0xFF for i in range(sum(sizes)))

        def work():
            if direction == 'read':
                under = SlowStream(payload, latency, log, sid)
                w = limiter.wrap(under)
                got = b''
                for n in sizes:
                    got += w.read(n)
                outs[sid] = (got, payload)
            else:
                under = SlowStream(b'', latency, log, sid)
                w = limiter.wrap(under)
                pos = 0
                for n in sizes:
                    w.write(payload[pos:pos + n])
                    pos += n
                outs[sid] = (under.getvalue(), payload)
        return work

    async def go():
        s = dsched.cur()
        limiter = U.RateLimitedIO(L)
        recs = [s.spawn(make_worker(limiter, i), f'stream{i}') for i in range(k)]
        s.block_until(lambda: all(r.done for r in recs), 'join-streams')
        return True

    x = dsched.run_one(lambda loop, s: go(), prefix, horizon=4000)
    out = {'points': x.points, 'err': None, 'viol': []}
    sig0 = {'k_ge_2': k >= 2, 'latency_nonzero': lat_mode != 'zero', 'dir': direction}
    if x.err is not None or x.exc is not None:
        out['err'] = None if x.err is None else ('hang' if isinstance(x.err, dsched.Hang) else
                                                 'capped' if isinstance(x.err, dsched.Horizon) else 'diverged')
        out['errmsg'] = repr(x.err or x.exc)[:200]
        out['viol'].append((dict(sig0, what='run-failed'), {'params': params, 'err': out['errmsg']}))
        out['outcome'] = out['obs'] = ('ERR',)
        return out
    # data integrity
    for sid, (got, want) in outs.items():
        if got != want:
            out['viol'].append((dict(sig0, what='data-altered'), {'params': params, 'stream': sid}))
    # window oracle over every pair of transfer instants
    ev = sorted(log)
    allowance = L * U.RateLimitedIO.PAUSE_LIMIT + k * max(sizes)
    worst = 0.0
    bad = None
    for i in range(len(ev)):
        tot = 0
        for j in range(i, len(ev)):
            tot += ev[j][1]
            T = ev[j][0] - ev[i][0]
            excess = tot - (L * T + allowance)
            if excess > worst + 1e-9:
                worst = excess
                bad = (ev[i][0], ev[j][0], tot)
    if bad is not None:
        out['viol'].append((dict(sig0, what='window-exceeded'),
                            {'params': params, 'window': bad, 'allowed': L * (bad[1] - bad[0]) + allowance,
                             'rate_over_window': bad[2] / max(bad[1] - bad[0], 1e-9)}))
    total_t = ev[-1][0] if ev else 0
    out['outcome'] = ('OK', round(total_t, 6), bad is not None)
    out['obs'] = (out['outcome'], tuple(ev))
    out['order'] = hash(tuple((e[1], e[2]) for e in ev))
    return out


# ---------------------------------------------------------------- the commands that take --limit-rate, end to end
class LogBackend:
    pass


def make_log_backend(log):
    from mc import world as W

    class B(W.MemBackend):
        def upload_stream(self, name, stream, length, chunk_size=128_000):
            idx = self._begin('upload_stream', name)
            try:
                parts = []
                while True:
                    piece = stream.read(chunk_size)
                    s_ = dsched.cur()
                    log.append((s_.vclock if s_ else 0.0, len(piece), chunk_size))
                    if not piece:
                        break
                    parts.append(bytes(piece))
                self.store.o[name] = b''.join(parts)
            finally:
                self._end('upload_stream')

        def download_stream(self, name, stream, chunk_size=128_000):
            idx = self._begin('download_stream', name)
            try:
                data = self.store.o[name]
                stream.truncate(len(data))
                for i in range(0, len(data), chunk_size):
                    stream.write(data[i:i + chunk_size])
                    s_ = dsched.cur()
                    log.append((s_.vclock if s_ else 0.0, len(data[i:i + chunk_size]), chunk_size))
            finally:
                self._end('download_stream')

    return B


@explore.register
def run_command(params, prefix):
    import os
    import shutil
    from mc import hist as H, world as W
    import replicat.repository as RR
    cmd, L, N = params['cmd'], params['L'], params['N']
    VT.oversleep = 1.0
    sc = H.worker_scratch()
    root = sc.sub()
    src = root / 'src'
    files = {'f1': bytes(range(256)) * 12, 'f2': bytes(reversed(range(256))) * 9}
    W.write_tree(src, files)
    log = []
    B = make_log_backend(log)
    store = W.Store()
    W.set_random('c20-cmd')
    W.set_clock()
    settings = W.default_settings(False, chunking={'min_length': 512, 'max_length': 1024}, hashing={'name': 'sha2', 'bits': 256})
    W.run(W.a_init, store, settings)
    if cmd in ('restore',):
        async def pre():
            repo = await W.a_open(store, None, N=N)
            with W.captured():
                await repo.snapshot(paths=[src])
                await repo.close()
        W.run(pre)
    if cmd == 'download_objects':
        store.o['objs/a'] = files['f1']
        store.o['objs/b'] = files['f2']
    cwd = os.getcwd()
    os.chdir(root)
    out_dir = root / 'out'

    async def go():
        repo = RR.Repository(B(store), concurrent=N, quiet=True, cache_directory=None)
        with W.captured():
            if cmd != 'upload_objects' and cmd != 'download_objects':
                await repo.unlock()
            log.clear()
            if cmd == 'snapshot':
                await repo.snapshot(paths=[src], rate_limit=L)
            elif cmd == 'restore':
                await repo.restore(path=out_dir, rate_limit=L)
            elif cmd == 'upload_objects':
                await repo.upload_objects([src / 'f1', src / 'f2'], rate_limit=L)
            else:
                await repo.download_objects(path=out_dir, object_prefix='objs/', rate_limit=L)
        return True

    try:
        x = dsched.run_one(lambda loop, s: go(), prefix, horizon=20000)
    finally:
        os.chdir(cwd)
    out = {'points': x.points, 'err': None, 'viol': []}
    sig0 = {'part': 'commands', 'cmd': cmd}
    if x.err is not None or x.exc is not None:
        out['err'] = None if x.err is None else ('hang' if isinstance(x.err, dsched.Hang) else 'capped' if isinstance(x.err, dsched.Horizon) else 'diverged')
        out['errmsg'] = repr(x.err or x.exc)[:200]
        if out['err'] in (None, 'hang'):
            out['viol'].append((dict(sig0, what='run-failed'), {'params': params, 'err': out['errmsg']}))
        out['outcome'] = out['obs'] = ('ERR', out['errmsg'][:40])
        shutil.rmtree(root, ignore_errors=True)
        return out
    # data integrity end to end
    if cmd == 'upload_objects':
        ok = sorted(v for k, v in store.o.items() if k.endswith(('f1', 'f2'))) == sorted(files.values())
    elif cmd == 'download_objects':
        ok = {p.name: p.read_bytes() for p in (out_dir / 'objs').iterdir()} == {'a': files['f1'], 'b': files['f2']}
    elif cmd == 'restore':
        ok = sorted(v[0] for v in W.read_tree(out_dir).values()) == sorted(files.values())
    else:
        ok = True
    if not ok:
        out['viol'].append((dict(sig0, what='data-altered'), {'params': params}))
    ev = sorted((t_, n_) for t_, n_, c_ in log if n_)
    chunk = max((c_ for _, _, c_ in log), default=1)
    allowance = L * U.RateLimitedIO.PAUSE_LIMIT + N * chunk
    worst, bad = 0.0, None
    for i in range(len(ev)):
        tot = 0
        for j in range(i, len(ev)):
            tot += ev[j][1]
            excess = tot - (L * (ev[j][0] - ev[i][0]) + allowance)
            if excess > worst + 1e-9:
                worst, bad = excess, (ev[i][0], ev[j][0], tot)
    if bad is not None:
        out['viol'].append((dict(sig0, what='window-exceeded'),
                            {'params': params, 'window': bad, 'transfer_chunk': chunk, 'limit': L,
                             'rate_over_window': bad[2] / max(bad[1] - bad[0], 1e-9)}))
    if chunk > max(L // 4, 1):
        out['viol'].append((dict(sig0, what='transfer-chunk-larger-than-a-quarter-second-of-the-limit'),
                            {'params': params, 'transfer_chunk': chunk, 'limit': L}))
    total_t = ev[-1][0] - ev[0][0] if ev else 0
    out['outcome'] = ('OK' if not out['viol'] else 'BAD', len(ev), round(total_t, 3))
    out['obs'] = (out['outcome'], tuple(ev))
    out['order'] = hash(tuple(ev))
    shutil.rmtree(root, ignore_errors=True)
    return out


class PartialIO:
    """A raw stream that accepts at most 3 bytes per write and says so."""

    def __init__(self):
        self.data = bytearray()
        self.pos = 0

    def write(self, b):
        b = bytes(b)[:3]
        self.data[self.pos:self.pos + len(b)] = b
        self.pos += len(b)
        return len(b)

    def read(self, n=-1):
        end = len(self.data) if n is None or n < 0 else min(len(self.data), self.pos + n)
        out = bytes(self.data[self.pos:end])
        self.pos = end
        return out[:2] if len(out) > 2 else out   # short reads, too

    def seek(self, pos, whence=0):
        self.pos = pos if whence == 0 else (self.pos + pos if whence == 1 else len(self.data) + pos)
        return self.pos

    def tell(self):
        return self.pos

    def truncate(self, size=None):
        size = self.pos if size is None else size
        del self.data[size:]
        return size


# ---------------------------------------------------------------- transparency
OPS = [('read', 3), ('read', -1), ('read', 0), ('write', b'xy'), ('write', b''), ('write', b'0123456789'), ('seek', 0), ('seek', 2),
       ('seek', 0, 2), ('tell',), ('truncate',), ('truncate', 0), ('truncate', 3), ('truncate', 20)]


def apply_op(f, op):
    name = op[0]
    if name == 'read':
        return f.read(op[1])
    if name == 'write':
        return f.write(op[1])
    if name == 'seek':
        return f.seek(*op[1:])
    if name == 'tell':
        return f.tell()
    if name == 'truncate':
        return f.truncate(*op[1:])


def transparency_case(args):
    wrapper_kind, seqs = args
    VT.oversleep = 1.0
    dsched.uninstall(U)   # no scheduler in this part: the limiter gets real locks
    vs = []
    n = 0
    for seq in seqs:
        n += 1
        init = b'abcdefgh'
        if wrapper_kind.endswith('+partial'):
            model, under = PartialIO(), PartialIO()
            for m_ in (model, under):
                m_.data[:] = init
                m_.pos = 2
            under.getvalue = lambda u=under: bytes(u.data)
            model.getvalue = lambda m__=model: bytes(m__.data)
        else:
            model = io.BytesIO(init)
            model.seek(2)
            under = io.BytesIO(init)
            under.seek(2)
        lim = U.RateLimitedIO(10**12)
        if wrapper_kind.startswith('limiter'):
            w = lim.wrap(under)
            allowed = {'read', 'write', 'seek', 'tell', 'truncate'}
        elif wrapper_kind == 'tqdm-reader':
            w = U.TQDMIOReader(lim.wrap(under), desc='', total=None, position=0, disable=True)
            allowed = {'read', 'seek', 'truncate'}
        else:
            w = U.TQDMIOWriter(lim.wrap(under), desc='', total=None, position=0, disable=True)
            allowed = {'write', 'seek', 'truncate'}
        if any(op[0] not in allowed for op in seq):
            continue
        if wrapper_kind != 'limiter' and any(op[0] == 'truncate' and len(op) == 1 for op in seq):
            pass
        try:
            for op in seq:
                got = apply_op(w, op)
                want = apply_op(model, op)
                if got != want:
                    vs.append(({'part': 'transparency', 'wrapper': wrapper_kind, 'what': 'return-value-differs', 'op': op[0]},
                               {'wrapper': wrapper_kind, 'seq': [list(map(repr, o)) for o in seq], 'got': repr(got), 'want': repr(want)}))
                    break
            else:
                if under.getvalue() != model.getvalue() or under.tell() != model.tell():
                    vs.append(({'part': 'transparency', 'wrapper': wrapper_kind, 'what': 'underlying-stream-differs'},
                               {'wrapper': wrapper_kind, 'seq': [list(map(repr, o)) for o in seq],
                                'got': repr(under.getvalue()), 'want': repr(model.getvalue())}))
        except Exception as e:
            vs.append(({'part': 'transparency', 'wrapper': wrapper_kind, 'what': 'exception', 'exc': type(e).__name__},
                       {'wrapper': wrapper_kind, 'seq': [list(map(repr, o)) for o in seq], 'err': repr(e)[:200]}))
    return n, vs


def replay(case):
    if 'params' in case:
        p = case['params']
        p['sizes'] = tuple(p['sizes'])
        r = run_streams(p, case.get('choices', []))
        return {'violations': [v[0] for v in r['viol']], 'outcome': r['outcome']}
    return {'violations': ['re-run ./check C20'], 'case': case}


def main():
    t = common.tier()
    chk = common.Check(PID, 'model_checking')
    plans = []
    for L in (100, 1000):
        small, mid, big = 1, L // 8, L // 4
        size_menus = [(big,) * 4, (mid, big, small, big), (small,) * 4, (big, mid, big, mid)]
        if t == 'thorough':
            size_menus += [(big,) * 6, (mid,) * 6, (big, small, big, small, big, small)]
        else:
            size_menus += [(big,) * 7]   # long enough for forgiven waiting time to add up (kept for k=3, zero latency only)
        for k in (1, 2, 3):
            for sizes in size_menus:
                for lat in ('zero', 'half', 'exact', 'double'):
                    for direction in ('read', 'write'):
                        for oversleep in (1.0, 1.1):
                            if t == 'quick' and (oversleep != 1.0 and (lat != 'zero' or direction == 'write')):
                                continue
                            if t == 'quick' and len(sizes) == 7 and (k != 3 or lat != 'zero' or oversleep != 1.0):
                                continue
                            bound = (1 if k > 1 else 0) if t == 'quick' else (2 if k > 1 else 0)
                            plans.append(({'L': L, 'k': k, 'sizes': sizes, 'lat': lat, 'dir': direction, 'oversleep': oversleep}, bound))
    tot = explore.Agg()
    for params, bound in plans:
        agg, info = explore.explore(run_streams, params, bound)
        if not info['deterministic_replay']:
            chk.harness_error(f'non-deterministic replay {params}')
        for sig, d in agg.viol:
            chk.violation(sig, d)
        for kk, v in agg.errs.items():
            if kk in ('capped', 'diverged'):
                chk.harness_error(f'{kk}: {v[2]}')
        tot.merge(agg)
    chk.sample({'L': 100, 'k': 2, 'sizes': [25, 12, 1, 25], 'latency': 'exact', 'direction': 'read', 'deviations': 1})
    # the four commands that take a rate limit, end to end under virtual time
    totc = explore.Agg()
    for cmd in ('snapshot', 'restore', 'upload_objects', 'download_objects'):
        for L in ((2000, 800) if t == 'quick' else (2000, 800, 100, 16000)):
            for N in (1, 2):
                agg, info = explore.explore(run_command, {'cmd': cmd, 'L': L, 'N': N}, 0 if t == 'quick' else 1)
                for sig, d in agg.viol:
                    chk.violation(sig, d)
                for kk, v in agg.errs.items():
                    if kk in ('capped', 'diverged'):
                        chk.harness_error(f'{kk} in {cmd}: {v[2]}')
                totc.merge(agg)
    tot.merge(totc)
    chk.sample({'part': 'commands', 'cmd': 'upload_objects', 'L': 2000, 'N': 2})
    # transparency
    seqs = []
    for n in (1, 2, 3, 4):
        if n == 4 and t == 'quick':
            base = [o for o in OPS if o not in (('read', 0), ('write', b''), ('truncate', 20), ('seek', 2))]
        else:
            base = OPS
        seqs += list(itertools.product(base, repeat=n))
    batches = []
    for wk in ('limiter', 'tqdm-reader', 'tqdm-writer', 'limiter+partial'):
        for i in range(0, len(seqs), 4000):
            batches.append((wk, seqs[i:i + 4000]))
    ntr = 0
    for n, vs in common.pmap(transparency_case, batches, ordered=False):
        ntr += n
        for sig, d in vs:
            chk.violation(sig, d)
    chk.sample({'part': 'transparency', 'wrapper': 'limiter', 'sequence': ['write(b"xy")', 'seek(0)', 'truncate()', 'read(-1)']})
    chk.coverage.update({
        'states': tot.executions, 'transitions': tot.total_points, 'traces_validated_against_impl': tot.executions,
        'evaluations': tot.executions + ntr, 'distinct_nontrivial': len(tot.orders) + ntr,
        'rule': 'limits {100,1000} x k in {1,2,3} streams x size patterns x 4 underlying latencies x read/write x exact/10% '
                'oversleep, every schedule within the deviation bound under a virtual clock, all windows between transfer '
                'instants; transparency: every sequence of <=4 operations per wrapper against BytesIO',
        'stream_configurations': len(plans), 'stream_executions': tot.executions, 'by_deviations': {str(a): b for a, b in tot.by_dev.items()},
        'transparency_sequences': ntr, 'allowance': 'L*0.5 + k*max(size)',
    })
    chk.assumptions += ['virtual time: computation is instantaneous, only underlying I/O and sleep take time']
    return chk.finish()


if __name__ == '__main__':
    sys.exit(common.run_main(main))
