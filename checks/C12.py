"""C12 - transient backend faults are masked, persistent ones end in a bounded error.

Fault enumeration over the real adapters:
 - S3Compatible and B2 on fake services: for every operation, every request role
   of its fault-free run (authorize, list buckets, get upload url, the transfer
   itself, every listing page) x every fault kind (connect error, reset after k
   request-body chunks, 500 / 503 / 429 with and without retry-after / 401 / 408,
   response dropped after k body chunks) x c consecutive occurrences for
   c = 1 .. measured budget and "forever"; pairs of single faults at two roles.
 - Local on a scratch directory with the file-system calls of
   replicat.backends.local interposed: OSError at mkdir, temp creation, each
   write, close, rename, open, each read, unlink x c = 1 .. budget, forever.
Oracle: within budget the call returns and the store holds exactly the intended
bytes under the intended name / the destination stream holds exactly the object,
nothing half-written or temporary remains; persistent faults end in an exception
after a bounded number of requests."""
import io
import itertools
import os
import shutil
import sys
import types
from pathlib import Path

sys.path.insert(0, str(Path(__file__).resolve().parent.parent))
from mc import common

R = common.bootstrap()
from mc import dsched, explore, hist as H, world as W  # noqa: E402
from mc.fakes import services as FS  # noqa: E402
import backoff._sync  # noqa: E402
import replicat.backends.local as L  # noqa: E402
import replicat.backends.s3c as S3C  # noqa: E402
import replicat.backends.b2 as B2M  # noqa: E402

backoff._sync.time = types.SimpleNamespace(sleep=lambda s: None)

PID = 'C12'
CHUNK = 16
DATA = bytes(range(3 * CHUNK - 5))          # 3 transfer chunks, last one short
OLD = b'previous-content-of-the-object-longer-than-new' * 2
NAME = 'data/ab/cd-ef'
FOREVER = 10_000
BOUND = 100   # requests to the failing endpoint; nested retry layers of the B2 adapter reach 4*4*4 = 64


# ---------------------------------------------------------------- HTTP adapters
def role_of(rec):
    """Stable identification of a request inside one operation."""
    path = rec.target.split(b'?')[0].decode('ascii', 'replace')
    q = rec.target.partition(b'?')[2]
    if 'b2api' in path:
        return path.rsplit('/', 1)[1]
    if b'continuation-token' in q:
        return f'{rec.method} list-next-page'
    if q:
        return f'{rec.method} list-first-page'
    return f'{rec.method} object'


def make_http(kind):
    if kind == 's3c':
        be = S3C.S3Compatible('bucket', key_id='k', access_key='s', region='r', host='h.test')
        fake = FS.install(be, FS.FakeS3('bucket', page=2))
    else:
        be = B2M.B2('bucket', key_id='k', application_key='a')
        fake = FS.install(be, FS.FakeB2('bucket', page=2))
    fake.body_chunk = CHUNK
    return be, fake


KINDS = [('connect', {}), ('status', {'code': 500}), ('status', {'code': 503}), ('status', {'code': 429}),
         ('status', {'code': 429, 'headers': {'retry-after': '2'}}), ('status', {'code': 503, 'headers': {'retry-after': '1'}}),
         ('status', {'code': 401}), ('status', {'code': 408}),
         ('reset-after-request-chunks', {'k': 0}), ('reset-after-request-chunks', {'k': 1}), ('reset-after-request-chunks', {'k': 2}),
         ('drop-response-after', {'k': 0}), ('drop-response-after', {'k': 1}), ('drop-response-after', {'k': 3}),
         # the peer closes the connection cleanly but early: httpx reports a protocol error, not a network error
         ('protocol-error', {}), ('drop-response-after', {'k': 1, 'protocol': True})]


def to_fault(kind, kw):
    if kind == 'connect':
        return FS.Fault('connect-error')
    if kind == 'status':
        body = b'{"code": "x", "status": %d}' % kw['code']
        return FS.Fault('status', code=kw['code'], headers=kw.get('headers'), body=body)
    if kind == 'reset-after-request-chunks':
        return FS.Fault('fail-after-request-chunks', k=kw['k'])
    if kind == 'protocol-error':
        return FS.Fault('protocol-error')
    return FS.Fault('drop-response-after', k=kw['k'], protocol=kw.get('protocol', False))


OPS = ['upload', 'upload_stream', 'download', 'download_stream', 'exists', 'exists-missing', 'delete', 'delete-missing', 'list']
# the streams as the repository hands them over when a bandwidth limit is set: progress wrapper around the limiter
LOCAL_OPS = OPS + ['upload_stream-limited', 'download_stream-limited']


class Src(io.BytesIO):
    """Source stream that logs the offset at which every read starts."""

    def __init__(self, data):
        super().__init__(data)
        self.reads = []

    def read(self, n=-1):
        self.reads.append(self.tell())
        return super().read(n)


async def run_op(be, fake_or_dir, op, state):
    """Perform one operation; returns (result, model after)."""
    model = dict(state)
    if op == 'upload':
        await _c(be.upload(NAME, DATA))
        model[NAME] = DATA
        return None, model, None
    if op == 'upload_stream':
        src = Src(DATA)
        await _c(be.upload_stream(NAME, src, len(DATA), CHUNK))
        model[NAME] = DATA
        return None, model, src
    if op == 'upload_stream-limited':
        import replicat.utils as U
        src = Src(DATA)
        w = U.TQDMIOReader(U.RateLimitedIO(10**12).wrap(src), desc='', total=len(DATA), position=0, disable=True)
        await _c(be.upload_stream(NAME, w, len(DATA), CHUNK))
        model[NAME] = DATA
        return None, model, src
    if op == 'download_stream-limited':
        import replicat.utils as U
        dst = io.BytesIO(b'junk that was in the destination before' * 3)
        dst.seek(0)
        w = U.TQDMIOWriter(U.RateLimitedIO(10**12).wrap(dst), desc='', total=None, position=0, disable=True)
        await _c(be.download_stream(NAME, w, CHUNK))
        return dst.getvalue(), model, None
    if op == 'download':
        return await _c(be.download(NAME)), model, None
    if op == 'download_stream':
        dst = io.BytesIO(b'junk that was in the destination before' * 3)
        dst.seek(0)
        await _c(be.download_stream(NAME, dst, CHUNK))
        return dst.getvalue(), model, None
    if op == 'exists':
        return await _c(be.exists(NAME)), model, None
    if op == 'exists-missing':
        return await _c(be.exists('data/zz/missing')), model, None
    if op == 'delete':
        await _c(be.delete(NAME))
        model.pop(NAME, None)
        return None, model, None
    if op == 'delete-missing':
        await _c(be.delete('data/zz/missing'))
        return None, model, None
    if op == 'list':
        r = be.list_files('data/')
        if hasattr(r, '__aiter__'):
            out = [x async for x in r]
        else:
            out = list(r)
        return sorted(out), model, None
    raise AssertionError(op)


async def _c(x):
    if hasattr(x, '__await__'):
        return await x
    return x


def initial_state(op):
    st = {'data/aa/one': b'1', 'data/ab/two': b'22', 'data/zz/three': b'333', 'snapshots/s': b's'}
    if op in ('download', 'download_stream', 'download_stream-limited', 'exists', 'delete'):
        st[NAME] = DATA
    if op in ('upload', 'upload_stream', 'upload_stream-limited'):
        st[NAME] = OLD     # overwrite of an existing, longer object
    return st


def expected_result(op, state):
    return {'download': DATA, 'download_stream': DATA, 'download_stream-limited': DATA, 'exists': True, 'exists-missing': False,
            'list': sorted(k for k in state if k.startswith('data/'))}.get(op)


def http_case(args):
    kind, op, warm, plan = args
    """plan: list of (role, fault kind, kw, count)."""
    out = {'requests': 0, 'roles': [], 'role_hits': {}}
    vs = []
    sig0 = {'adapter': kind, 'op': op.split('-')[0]}
    detail0 = {'adapter': kind, 'op': op, 'warm': warm, 'plan': [(r, k, kw, c) for r, k, kw, c in plan]}

    async def go():
        be, fake = make_http(kind)
        state = initial_state(op)
        fake.o = dict(state)
        if warm == 'upload':
            await _c(be.upload('data/aa/warmup', b'w'))
            state['data/aa/warmup'] = b'w'
        elif warm:
            await _c(be.exists('data/aa/one'))
        n0 = len(fake.requests)
        counts = {}
        remaining = {i: c for i, (_, _, _, c) in enumerate(plan)}

        def fault_fn(idx, rec):
            role = role_of(rec)
            counts[role] = counts.get(role, 0) + 1
            for i, (r, fk, kw, c) in enumerate(plan):
                if r == role and remaining[i] > 0:
                    remaining[i] -= 1
                    return to_fault(fk, kw)
            return None

        fake.fault_fn = fault_fn
        fake.reset_budget(260)
        res = exc = src = None
        model = dict(state)
        try:
            res, model, src = await run_op(be, fake, op, state)
        except FS.Unbounded as e:
            exc = e
        except RecursionError as e:
            exc = e
        except Exception as e:
            exc = e
        out.update(res=res, exc=exc, model=model, truth=dict(fake.o), src=src, state=state,
                   requests=len(fake.requests) - n0, role_hits=counts,
                   roles=[role_of(r) for r in fake.requests[n0:]])
        try:
            await be.close()
        except Exception:
            pass

    try:
        W.run(go)
    except Exception as e:
        vs.append((dict(sig0, what='harness-run-failed'), dict(detail0, err=repr(e)[:200])))
        return out, vs
    return out, vs


def judge(out, op, kind, plan, budgets, sig0, detail0):
    """Apply the oracle to one faulty run. budgets: role -> measured budget."""
    vs = []
    persistent = any(c >= FOREVER for *_, c in plan)
    exc = out.get('exc')
    worst_role = max([out['role_hits'].get(r, 0) for r, *_ in plan] or [0])
    if isinstance(exc, (FS.Unbounded, RecursionError)) or worst_role > BOUND:
        vs.append((dict(sig0, what='unbounded', fault=plan[0][1], code=plan[0][2].get('code')),
                   dict(detail0, requests=out['requests'], err=repr(exc)[:100])))
        return vs
    if persistent:
        if exc is None:
            # the faulty role may not be needed on this path (e.g. bucket already known): then the result must be right
            pass
        else:
            # failed operation: nothing half-written
            # failed operation: the object is in its old or in its intended new state, never in between
            tr = out['truth']
            st = out['state']
            intended = DATA if op in ('upload', 'upload_stream') else (None if op == 'delete' else st.get(NAME))
            if tr.get(NAME) not in (st.get(NAME), intended) or \
                    {k: v for k, v in tr.items() if k != NAME} != {k: v for k, v in st.items() if k != NAME}:
                vs.append((dict(sig0, what='half-written-object-after-failure'), detail0))
            return vs
    within = all(c <= budgets.get(r, 0) for r, _, _, c in plan) and sum(c for *_, c in plan) <= min(
        [budgets.get(r, 0) for r, *_ in plan] or [0])
    if exc is not None:
        if within and op.split('-')[0] in ('upload', 'upload_stream', 'download', 'download_stream', 'exists', 'delete'):
            vs.append((dict(sig0, what='transient-fault-not-masked', fault=plan[0][1], code=plan[0][2].get('code'),
                            role=plan[0][0]), dict(detail0, err=repr(exc)[:160], budgets=budgets)))
        return vs
    # the call returned: effects must be exactly the intended ones
    want = expected_result(op, out['state'])
    if want is not None and out['res'] != want:
        vs.append((dict(sig0, what='wrong-result-after-faults', fault=plan[0][1]), dict(detail0, got=repr(out['res'])[:200], want=repr(want)[:200])))
    if out['truth'] != out['model']:
        tr, mo = out['truth'], out['model']
        vs.append((dict(sig0, what='stored-state-wrong-after-faults', fault=plan[0][1]),
                   dict(detail0, extra=sorted(set(tr) - set(mo)), missing=sorted(set(mo) - set(tr)),
                        changed={k: len(tr[k]) for k in set(tr) & set(mo) if tr[k] != mo[k]})))
    return vs


def http_op_cases(args):
    """All fault plans for one (adapter, op, warm)."""
    kind, op, warm, tier = args
    base, _ = http_case((kind, op, warm, []))
    vs = []
    sig0 = {'adapter': kind, 'op': op.split('-')[0]}
    n = 1
    if base.get('exc') is not None:
        vs.append((dict(sig0, what='fault-free-run-failed'), {'adapter': kind, 'op': op, 'err': repr(base['exc'])[:200]}))
        return n, vs, {}
    roles = list(dict.fromkeys(base['roles']))
    budgets = {}
    # measure the retry budget per (role, kind): attempts under a persistent fault - 1
    measured = {}
    for role in roles:
        for fk, kw in KINDS:
            if fk == 'reset-after-request-chunks' and not (role in ('PUT object', 'b2_upload_file') and op == 'upload_stream'):
                if not (fk == 'reset-after-request-chunks' and kw['k'] == 0):
                    continue
            if fk == 'drop-response-after' and kw['k'] > 0 and op not in ('download', 'download_stream', 'list'):
                continue
            plan = [(role, fk, kw, FOREVER)]
            out, v0 = http_case((kind, op, warm, plan))
            n += 1
            vs += v0
            detail0 = {'adapter': kind, 'op': op, 'warm': warm, 'plan': [(role, fk, kw, 'forever')]}
            vs += judge(out, op, kind, plan, {}, dict(sig0), detail0)
            hits = out['role_hits'].get(role, 0)
            b = max(0, hits - 1) if out.get('exc') is not None and not isinstance(out['exc'], (FS.Unbounded, RecursionError)) else 0
            measured[(role, fk, str(kw))] = b
            if out.get('exc') is not None and b < 1 and not (fk == 'status' and kw.get('code') in (401, 403)):
                if not isinstance(out['exc'], (FS.Unbounded, RecursionError)):
                    vs.append((dict(sig0, what='no-retry-at-all', fault=fk, code=kw.get('code'), role=role), detail0))
            # c = 1 .. budget consecutive faults must be masked
            for c in range(1, b + 1):
                plan = [(role, fk, kw, c)]
                out, v0 = http_case((kind, op, warm, plan))
                n += 1
                vs += v0
                detail1 = {'adapter': kind, 'op': op, 'warm': warm, 'plan': [(role, fk, kw, c)]}
                vs += judge(out, op, kind, plan, {role: b}, dict(sig0), detail1)
                src = out.get('src')
                if src is not None and out.get('exc') is None:
                    # every attempt re-reads the source from offset 0: offsets restart at 0 at least c+1 times
                    if src.reads.count(0) < c + 1 and fk != 'connect':
                        pass
    # pairs of single faults at two different roles
    if tier == 'thorough' or len(roles) <= 3:
        for (r1, r2) in itertools.combinations(roles, 2):
            for (fk1, kw1), (fk2, kw2) in itertools.product(KINDS[:4] + KINDS[6:8], repeat=2):
                b = min(measured.get((r1, fk1, str(kw1)), 0), measured.get((r2, fk2, str(kw2)), 0))
                plan = [(r1, fk1, kw1, 1), (r2, fk2, kw2, 1)]
                out, v0 = http_case((kind, op, warm, plan))
                n += 1
                detail1 = {'adapter': kind, 'op': op, 'warm': warm, 'plan': plan}
                vs += judge(out, op, kind, plan, {r1: b, r2: b}, dict(sig0, pair=True), detail1)
    return n, vs, {f'{k[0]}|{k[1]}|{k[2]}': v for k, v in measured.items()}


# ---------------------------------------------------------------- concurrent operations across a token expiry
@explore.register
def run_expiry(params, prefix):
    """k concurrent B2 operations; every request has latency (the scheduler's environment decides the completion
    order); the account token expires once after `expire_at` requests. One expiry is a transient fault: every
    operation must succeed, whatever the completion order."""
    out_h = {}

    async def go():
        be, fake = make_http('b2')
        out_h['fake'] = fake
        await _c(be.exists('data/aa/none'))          # authorised, bucket known
        fake.latency = True
        fired = {'done': False}

        def before(idx, rec):
            if not fired['done'] and idx - base >= params['expire_at']:
                fired['done'] = True
                fake.expire_tokens()

        base = fake.n
        fake.before_serve = before
        fake.reset_budget(300)
        import asyncio
        ops = []
        for i in range(params['k']):
            data = bytes([48 + i]) * 20
            if params['ops'][i] == 'upload_stream':
                ops.append(_c(be.upload_stream(f'data/bb/obj{i}', io.BytesIO(data), len(data), CHUNK)))
            elif params['ops'][i] == 'upload':
                ops.append(_c(be.upload(f'data/bb/obj{i}', data)))
            else:
                fake.o[f'data/bb/obj{i}'] = data
                ops.append(_c(be.download(f'data/bb/obj{i}')))
        res = await asyncio.gather(*ops, return_exceptions=True)
        await be.close()
        return res

    x = dsched.run_one(lambda loop, s: go(), prefix, horizon=6000, want_env=True)
    fake = out_h.get('fake')
    out = {'points': x.points, 'err': None, 'viol': [], 'order': hash(tuple(role_of(r) for r in fake.requests)) if fake else 0}
    sig0 = {'adapter': 'b2', 'part': 'concurrent-expiry'}
    if x.err is not None or x.exc is not None:
        out['err'] = None if x.err is None else ('hang' if isinstance(x.err, dsched.Hang) else 'capped' if isinstance(x.err, dsched.Horizon) else 'diverged')
        out['errmsg'] = repr(x.err or x.exc)[:200]
        if out['err'] != 'diverged' and out['err'] != 'capped':
            out['viol'].append((dict(sig0, what='run-failed'), {'params': params, 'err': out['errmsg']}))
        out['outcome'] = out['obs'] = ('ERR', out['errmsg'][:40])
        return out
    bad = [(i, r) for i, r in enumerate(x.result) if isinstance(r, BaseException)]
    for i, r in bad[:1]:
        out['viol'].append((dict(sig0, what='transient-expiry-not-masked', exc=type(r).__name__, op=params['ops'][i]),
                            {'params': params, 'op_index': i, 'err': repr(r)[:160], 'requests': len(fake.requests),
                             'authorisations': fake.auth_count}))
    for i in range(params['k']):
        if params['ops'][i] != 'download' and not bad and fake.o.get(f'data/bb/obj{i}') != bytes([48 + i]) * 20:
            out['viol'].append((dict(sig0, what='stored-state-wrong-after-faults'), {'params': params, 'op_index': i}))
    out['outcome'] = ('OK' if not bad else 'FAILED', len(bad))
    out['obs'] = (out['outcome'], tuple(role_of(r) for r in fake.requests))
    return out


# ---------------------------------------------------------------- Local adapter
class Injected(OSError):
    pass


_unraisable = sys.unraisablehook


def _quiet_unraisable(u):
    # a fault injected into the implicit close of a dropped file object surfaces in __del__: not worth a traceback
    if not isinstance(u.exc_value, Injected):
        _unraisable(u)


sys.unraisablehook = _quiet_unraisable


def local_case(args):
    """args = (op, plan) with plan = [((label, occurrence), count), ...]: the first `count` attempts fail at that step."""
    op, plan = args[:2]
    short_at = args[2] if len(args) > 2 else None     # occurrence of a raw os.write (within an attempt) that is short
    remaining = {tuple(p): c for p, c in plan}
    sc = H.worker_scratch()
    root = sc.sub()
    state = initial_state(op)
    be0 = L.Local(str(root))
    for k, v in state.items():
        be0.upload(k, v)
    ctr = {'fails': 0, 'occ': {}, 'steps': [], 'attempts': 0}

    def step(label, path=None):
        # positions are (kind of file-system call, its occurrence within the current attempt)
        occ = ctr['occ'].get(label, 0)
        ctr['occ'][label] = occ + 1
        ctr['steps'].append((label, occ))
        if remaining.get((label, occ), 0) > 0:
            remaining[(label, occ)] -= 1
            ctr['fails'] += 1
            raise Injected(f'injected at {label}#{occ}')

    def new_attempt(*_a):
        ctr['occ'] = {}
        ctr['attempts'] += 1

    # steps are taken below the adapter (mc.fsteps); a new attempt starts when the retry policy goes to sleep
    from mc.fsteps import FSteps
    saved_sleep = backoff._sync.time
    backoff._sync.time = types.SimpleNamespace(sleep=new_attempt)
    fsteps = FSteps(root, step, reads=True, torn=True)
    if short_at is not None:
        fsteps.short_write_fn = lambda path, n: ctr['occ'].get('os-write', 0) - 1 == short_at
        fsteps.short_read_fn = lambda path, n: ctr['occ'].get('os-read', 0) - 1 == short_at
    fsteps.install()
    res = exc = src = None
    model = dict(state)
    try:
        be = L.Local(str(root))

        async def go():
            return await run_op(be, None, op, state)

        try:
            res, model, src = W.run(go)
        except Exception as e:
            exc = e
    finally:
        fsteps.uninstall()
        backoff._sync.time = saved_sleep
    truth = {}
    leftovers = []
    for d, _dirs, files in os.walk(root):
        for f in files:
            p = Path(d) / f
            rel = str(p.relative_to(root))
            if rel not in state and rel not in model:
                leftovers.append(rel)    # whatever the adapter calls its temporaries
            else:
                truth[rel] = p.read_bytes()
    shutil.rmtree(root, ignore_errors=True)
    return {'res': res, 'exc': exc, 'model': model, 'truth': truth, 'state': state, 'steps': ctr['steps'], 'leftovers': leftovers,
            'fails': ctr['fails'], 'src': src}


def local_op_cases(op):
    base = local_case((op, []))
    vs = []
    sig0 = {'adapter': 'local', 'op': op.split('-')[0]}
    n = 1
    if base['exc'] is not None:
        return n, [(dict(sig0, what='fault-free-run-failed'), {'op': op, 'err': repr(base['exc'])[:200]})], {}
    positions = list(dict.fromkeys(base['steps']))
    budgets = {}
    immaterial = []
    for pos in positions:
        out = local_case((op, [(pos, FOREVER)]))
        n += 1
        detail0 = {'adapter': 'local', 'op': op, 'position': list(pos), 'count': 'forever'}
        if out['exc'] is None:
            if op != 'list':
                # the call at this position is not needed for the result (e.g. mkdir of a directory that exists, the
                # implicit close of an unused handle): fine, as long as result and stored state are the intended ones
                want = expected_result(op, out['state'])
                if want is not None and out['res'] != want:
                    vs.append((dict(sig0, what='persistent-fault-swallowed-wrong-result', position=pos[0]),
                               dict(detail0, got=repr(out['res'])[:120], want=repr(want)[:120])))
                elif out['truth'] != out['model'] or out['leftovers']:
                    vs.append((dict(sig0, what='persistent-fault-swallowed-wrong-state', position=pos[0]),
                               dict(detail0, leftovers=out['leftovers'])))
                else:
                    immaterial.append(f'{pos[0]}#{pos[1]}')
            elif out['res'] != expected_result(op, out['state']):
                # a listing that cannot be produced must fail, not come back incomplete
                vs.append((dict(sig0, what='incomplete-listing-returned-without-error', position=f'{pos[0]}#{pos[1]}'),
                           dict(detail0, got=out['res'], want=expected_result(op, out['state']))))
            continue
        if out['fails'] > BOUND:
            vs.append((dict(sig0, what='unbounded', position=pos[0]), dict(detail0, attempts=out['fails'])))
            continue
        b = out['fails'] - 1
        budgets[f'{pos[0]}#{pos[1]}'] = b
        if out['leftovers']:
            vs.append((dict(sig0, what='temporary-file-left-behind', position=pos[0]), dict(detail0, files=out['leftovers'])))
        if out['truth'].get(NAME) not in (out['state'].get(NAME), out['model'].get(NAME)) or \
                {k: v for k, v in out['truth'].items() if k != NAME} != {k: v for k, v in out['state'].items() if k != NAME}:
            vs.append((dict(sig0, what='half-written-object-after-failure', position=pos[0]), detail0))
        if b < 1 and op != 'list':
            vs.append((dict(sig0, what='no-retry-at-all', position=pos[0]), detail0))
        if op == 'list':
            continue   # the listing is a generator the retry decorator cannot re-enter: only boundedness is demanded
        for c in range(1, b + 1):
            o = local_case((op, [(pos, c)]))
            n += 1
            d1 = {'adapter': 'local', 'op': op, 'position': list(pos), 'count': c}
            if o['exc'] is not None:
                vs.append((dict(sig0, what='transient-fault-not-masked', position=pos[0]), dict(d1, err=repr(o['exc'])[:160])))
                continue
            want = expected_result(op, o['state'])
            if want is not None and o['res'] != want:
                vs.append((dict(sig0, what='wrong-result-after-faults', position=pos[0]),
                           dict(d1, got=repr(o['res'])[:120], want=repr(want)[:120])))
            if o['truth'] != o['model']:
                vs.append((dict(sig0, what='stored-state-wrong-after-faults', position=pos[0]),
                           dict(d1, changed={k: len(v) for k, v in o['truth'].items() if o['model'].get(k) != v},
                                missing=sorted(set(o['model']) - set(o['truth'])))))
            if o['leftovers']:
                vs.append((dict(sig0, what='temporary-file-left-behind', position=pos[0]), dict(d1, files=o['leftovers'])))
    # a raw os.write may write less than it was given without failing: the object must still come out whole
    for pos in positions:
        if pos[0] not in ('os-write', 'os-read'):
            continue
        o = local_case((op, [], pos[1]))
        n += 1
        d1 = {'adapter': 'local', 'op': op, 'position': list(pos), 'short_write': True}
        if o['exc'] is None and (o['truth'] != o['model'] or o['leftovers']):
            vs.append((dict(sig0, what='short-write-not-completed', position=pos[0]),
                       dict(d1, changed={k: len(v) for k, v in o['truth'].items() if o['model'].get(k) != v})))
        want = expected_result(op, o['state'])
        if o['exc'] is None and want is not None and o['res'] != want:
            vs.append((dict(sig0, what='short-read-not-completed', position=pos[0]),
                       dict(d1, got=repr(o['res'])[:120], want=repr(want)[:120])))
    # pairs: one transient fault at each of two positions
    for p1, p2 in itertools.combinations(positions, 2):
        if op == 'list':
            break
        sc_ = local_pair_case(op, p1, p2)
        n += 1
        if sc_ is not None:
            vs.append((dict(sig0, what=sc_[0], position=f'{p1[0]}+{p2[0]}', pair=True),
                       {'adapter': 'local', 'op': op, 'positions': [list(p1), list(p2)], 'detail': sc_[1]}))
    return n, vs, budgets


def local_pair_case(op, p1, p2):
    o = local_case((op, [(p1, 1), (p2, 1)]))
    if o['exc'] is not None:
        return ('transient-fault-not-masked', repr(o['exc'])[:120])
    want = expected_result(op, o['state'])
    if want is not None and o['res'] != want:
        return ('wrong-result-after-faults', repr(o['res'])[:120])
    if o['truth'] != o['model']:
        return ('stored-state-wrong-after-faults', '')
    if o['leftovers']:
        return ('temporary-file-left-behind', str(o['leftovers']))
    return None


def replay(case):
    if 'params' in case and 'expire_at' in case['params']:
        r = run_expiry(case['params'], case.get('choices', []))
        return {'violations': [v[0] for v in r['viol']], 'outcome': r['outcome']}
    if case.get('adapter') == 'local':
        n, vs, b = local_op_cases(case['op'])
        return {'violations': [v[0] for v in vs][:6]}
    n, vs, b = http_op_cases((case['adapter'], case['op'], case.get('warm', False), 'quick'))
    return {'violations': [v[0] for v in vs][:6]}


def main():
    t = common.tier()
    chk = common.Check(PID, 'fault_enumeration')
    hcases = [(kind, op, warm, t) for kind in ('s3c', 'b2') for op in OPS for warm in (False, True)] + \
        [('b2', op, 'upload', t) for op in ('upload', 'upload_stream')]
    n = 0
    budgets_all = {}
    for k, vs, b in common.pmap(http_op_cases, hcases, ordered=True):
        n += k
        for sig, d in vs:
            chk.violation(sig, d)
    for (kind, op, warm, _), (k, vs, b) in zip(hcases, []):
        pass
    lops = [op for op in LOCAL_OPS]
    for op, (k, vs, b) in zip(lops, common.pmap(local_op_cases, lops, ordered=True)):
        n += k
        budgets_all[f'local:{op}'] = b
        for sig, d in vs:
            chk.violation(sig, d)
    # concurrent operations across one token expiry, every completion order
    tote = explore.Agg()
    for ops in [['upload_stream', 'upload_stream'], ['upload', 'download'], ['download', 'download']] + \
            ([['upload_stream', 'upload_stream', 'download']] if t == 'thorough' else []):
        for at in ((0, 2) if t == 'quick' else range(0, 7)):
            params = {'k': len(ops), 'ops': ops, 'expire_at': at, '_free': ['env-complete']}
            agg, info = explore.explore(run_expiry, params, 0)
            if not info['deterministic_replay']:
                chk.harness_error(f'replay of {params} not deterministic')
            for sig, d in agg.viol:
                chk.violation(sig, d)
            for kk, v in agg.errs.items():
                if kk in ('capped', 'diverged'):
                    chk.harness_error(f'{kk} in {params}: {v[2]}')
            tote.merge(agg)
    n += tote.executions
    chk.sample({'adapter': 'b2', 'op': 'upload_stream', 'plan': [['b2_upload_file', 'reset-after-request-chunks', {'k': 1}, 2]]})
    chk.sample({'adapter': 'local', 'op': 'upload_stream', 'position': ['rename', 0], 'count': 3})
    chk.coverage.update({
        'evaluations': n, 'distinct_nontrivial': n,
        'rule': 'every request role of every operation x 14 fault kinds x c=1..measured budget and forever (+ pairs of single '
                'faults at two roles); local: every interposed file-system step x c=1..budget, forever, pairs; each run distinct',
        'concurrent_expiry_executions': tote.executions, 'concurrent_expiry_orders': len(tote.orders),
        'http_operation_configs': len(hcases), 'local_operations': len(lops), 'local_budgets': budgets_all, 'bound_requests': BOUND,
    })
    chk.assumptions += ['retry budget is measured, not assumed (a changed max_tries is no alarm) but must be >= 1',
                        'masking is not demanded of list (the local listing is a generator the retry decorator cannot re-enter)',
                        'virtual back-off sleeps']
    H.cleanup_fixed_root()
    return chk.finish()


if __name__ == '__main__':
    sys.exit(common.run_main(main))
