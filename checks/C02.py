"""C02 - no history of snapshot/delete/clean ever damages a remaining snapshot.

E2: breadth-first search over histories of real commands by users with owner /
shared / independent keys (and an unencrypted repository); invariant on every
generated state, transition oracle on every step. Plus E1: pairs of overlapping
non-destructive commands from two "processes" under all completion orders with
<= d deviations."""
import sys
from pathlib import Path

sys.path.insert(0, str(Path(__file__).resolve().parent.parent))
from mc import common

R = common.bootstrap()
from mc import dsched, explore, hist as H, world as W  # noqa: E402

PID = 'C02'
FSDIRS = None
MENU = ['F1', 'F2', 'F3']


def expand(state):
    fsdirs = H.materialize()
    out = []
    for ev in H.standard_events(state, MENU):
        before_ref = None
        res = H.apply(state, ev, fsdirs)
        new = res.state
        vs = []
        sig0 = {'event': ev[0], 'actor_kind': state.users[ev[1]]['kind']}
        if res.exc is not None:
            vs.append((dict(sig0, what='command-failed', exc=type(res.exc).__name__),
                       {'hist': new.hist, 'err': repr(res.exc)[:300]}))
        # transition oracle: at no moment is a chunk removed (or replaced by other bytes)
        # while a snapshot object that references it is present
        for p in H.temporal_reference_check(state, new, res.mutations)[:1]:
            vs.append((dict(sig0, what=p['what']), {'hist': new.hist, 'problem': p}))
        for p in H.invariant_restorable(new, fsdirs):
            vs.append((dict(sig0, what=p['what']), {'hist': new.hist, 'problem': p}))
        out.append((ev, new, H.canon(new), vs))
    return out


# ---------------------------------------------------------------- overlap (E1)
CMDS = ['snapshot', 'list-snapshots', 'list-files', 'restore']
_PRE = {}


def pre_states():
    import os
    if os.getpid() not in _PRE:
        fsdirs = H.materialize()
        s0 = H.make_initial('enc')
        s1 = H.apply(s0, ('snap', 'A', 'F1'), fsdirs).state
        s2 = H.apply(s1, ('snap', 'B', 'F2'), fsdirs).state
        _PRE[os.getpid()] = {'s0': s0, 's1': s1, 's2': s2}
    return _PRE[os.getpid()]


@explore.register
def run_overlap(params, prefix):
    fsdirs = H.materialize()
    st0 = pre_states()[params['pre']]
    store = W.Store(st0.o)
    sc = H.worker_scratch()
    targets = [sc.sub(), sc.sub()]
    W.set_random('ovl')
    W.set_clock()
    holder = {}
    if params.get('fail'):
        # the k-th chunk upload (of whichever of the two commands issues it) fails for good
        cnt = {'n': 0, 'name': None}

        def fault(kind, name, idx):
            if kind == 'upload_stream' and name.startswith('data/'):
                if name != cnt['name'] and cnt['name'] is None:
                    cnt['n'] += 1
                    if cnt['n'] == params['fail']:
                        cnt['name'] = name
                if name == cnt['name']:
                    raise OSError(5, 'injected: upload fails for good')

        store.fault = fault

    async def one(i, uname, cmd):
        repo = await W.a_open(store, H.user_obj(st0, uname), N=2, backend=W.AMemBackend)
        try:
            if cmd == 'snapshot':
                r = await repo.snapshot(paths=[fsdirs['F3' if i else 'F2']])
                holder[i] = ('snap', r.location, r.name, 'F3' if i else 'F2', uname, [d.hex() for d in r.chunks])
            elif cmd == 'list-snapshots':
                await repo.list_snapshots()
            elif cmd == 'list-files':
                await repo.list_files()
            else:
                r = await repo.restore(path=targets[i])
                holder[i] = ('restore', sorted(r.files))
        finally:
            await repo.close()

    async def go():
        import asyncio
        with W.captured():
            res = await asyncio.gather(one(0, params['u0'], params['c0']), one(1, params['u1'], params['c1']),
                                       return_exceptions=bool(params.get('fail')))
            if params.get('fail'):
                # one of the two may fail with the injected error; whatever completed must stay intact
                for r_ in res:
                    if isinstance(r_, BaseException) and not isinstance(r_, OSError):
                        raise r_

    x = dsched.run_one(lambda loop, s: go(), prefix, horizon=8000, want_env=True)
    viol = []
    sig0 = {'pre': params['pre'], 'c0': params['c0'], 'c1': params['c1'], 'u0': params['u0'], 'u1': params['u1']}
    out = {'points': x.points, 'err': None, 'order': explore.canon_order(store.calls)}
    if x.err is not None:
        out['err'] = 'hang' if isinstance(x.err, dsched.Hang) else ('capped' if isinstance(x.err, dsched.Horizon) else 'diverged')
        out['errmsg'] = str(x.err)[:200]
        if out['err'] == 'hang':
            viol.append((dict(sig0, what='hang'), {'params': params, 'msg': str(x.err)[:200]}))
        outcome = ('ERR', out['err'])
    elif x.exc is not None:
        viol.append((dict(sig0, what='exception', exc=type(x.exc).__name__), {'params': params, 'err': repr(x.exc)[:300]}))
        outcome = ('EXC', type(x.exc).__name__)
    else:
        new = st0.clone()
        new.o = dict(store.o)
        for i in (0, 1):
            hres = holder.get(i)
            if hres and hres[0] == 'snap':
                new.ledger.append({'loc': hres[1], 'name': hres[2], 'owner': hres[4], 'fsid': hres[3], 'seq': 100 + i,
                                   'chunks': hres[5]})
        probs = H.invariant_restorable(new, fsdirs)
        for p in probs:
            viol.append((dict(sig0, what=p['what']), {'params': params, 'problem': p}))
        # a concurrent restore must produce, for every pre-existing snapshot file of the caller, its content
        for i in (0, 1):
            hres = holder.get(i)
            if hres and hres[0] == 'restore':
                uname = params['u0'] if i == 0 else params['u1']
                tree = {p_: v[0] for p_, v in W.read_tree(targets[i]).items()}
                for e in st0.ledger:
                    if e['owner'] != uname:
                        continue
                    for p_, data in H.expected_files(e, fsdirs).items():
                        rp = W.restore_path(targets[i], p_)
                        if rp not in tree:
                            viol.append((dict(sig0, what='overlap-restore-missing'), {'params': params, 'file': p_}))
        outcome = ('OK', len(probs))
    import shutil
    for t in targets:
        shutil.rmtree(t, ignore_errors=True)
    out['outcome'] = outcome
    out['obs'] = (outcome, tuple(store.calls))
    out['viol'] = viol
    return out


def replay(case):
    if 'params' in case:
        r = run_overlap(case['params'], case.get('choices', []))
        return {'violations': [v[0] for v in r['viol']], 'outcome': r['outcome']}
    # history replay
    fsdirs = H.materialize()
    kind = 'unenc' if case['hist'] and case['hist'][0][1] == 'U' else 'enc'
    s = H.make_initial(kind)
    last = None
    for ev in case['hist']:
        ev = tuple(tuple(x) if isinstance(x, list) else x for x in ev)
        last = H.apply(s, ev, fsdirs)
        s = last.state
    probs = H.invariant_restorable(s, fsdirs)
    v = [p['what'] for p in probs]
    if last is not None and last.exc is not None:
        v.append('command-failed')
    return {'violations': v, 'problems': probs, 'hist': case['hist']}


def main():
    t = common.tier()
    chk = common.Check(PID, 'model_checking')
    H.materialize()
    depth = 3 if t == 'quick' else 4
    stats_all = []
    states = transitions = 0
    try:
        for kind in ('enc', 'unenc'):
            d = depth if kind == 'enc' else depth + 1
            s0 = list(common.pmap(H.make_initial, [kind], procs=1, force=True))[0]
            stats, viol = H.bfs([s0], expand, d, label=kind)
            stats['repository'] = kind
            stats_all.append(stats)
            states += stats['states']
            transitions += stats['transitions']
            for sig, detail in viol:
                chk.violation(sig, detail)
            for smp in stats.pop('samples')[:2]:
                chk.sample({'repository': kind, 'history': smp})
        # overlap clause
        pairs = []
        users = ['A', 'B', 'C']
        pres = ['s1', 's2'] if t == 'quick' else ['s0', 's1', 's2']
        for pre in pres:
            for c0 in CMDS:
                for c1 in CMDS:
                    for (u0, u1) in (('A', 'A'), ('A', 'B'), ('A', 'C')) if t == 'quick' else \
                            (('A', 'A'), ('A', 'B'), ('B', 'A'), ('A', 'C'), ('C', 'A')):
                        pairs.append({'pre': pre, 'c0': c0, 'c1': c1, 'u0': u0, 'u1': u1})
        # two snapshots at the same time, one of them meeting a chunk upload that fails for good: the other's result
        # (and everything that was there before) stays restorable
        for k in (1, 2, 3):
            for (u0, u1) in (('A', 'B'), ('A', 'A')):
                pairs.append({'pre': 's1', 'c0': 'snapshot', 'c1': 'snapshot', 'u0': u0, 'u1': u1, 'fail': k, '_bf': 1})
        tot = explore.Agg()
        for p in pairs:
            snap = 'snapshot' in (p['c0'], p['c1'])
            if t == 'quick':
                # quick: all pairs at d=0, the snapshot-involving pairs on s1 at d=1
                p['_b'] = 1 if (p['pre'] == 's1' and snap and p['u0'] == 'A' and p['u1'] in ('A', 'B')) else 0
            else:
                # thorough: every pair at d=1, the snapshot-involving pairs of same-family users on s1 at d=2
                p['_b'] = 2 if (p['pre'] == 's1' and snap and (p['u0'], p['u1']) in (('A', 'A'), ('A', 'B'))) else 1
        det = True
        for p in pairs:
            b = p.pop('_b', 1)
            if '_bf' in p:
                b = p.pop('_bf')
            agg, info = explore.explore(run_overlap, p, b)
            det &= info['deterministic_replay']
            for sig, detail in agg.viol:
                chk.violation(sig, detail)
            for k, v in agg.errs.items():
                if k in ('capped', 'diverged'):
                    chk.harness_error(f'{k} in overlap {p}: {v[2]}')
            tot.merge(agg)
        if not det:
            chk.harness_error('overlap harness replay not deterministic')
        chk.coverage.update({
            'states': states, 'transitions': transitions + tot.total_points,
            'traces_validated_against_impl': transitions + tot.executions,
            'evaluations': transitions + tot.executions, 'distinct_nontrivial': states + len(tot.orders),
            'rule': 'BFS over histories of real commands; state = object map canonicalised by (snapshots in time order as '
                    '(owner,file set), per-family chunk names, other objects); every transition result gets the full '
                    'invariant (owner restore + independent reader); overlap: pairs of non-destructive commands by two '
                    'Repository objects on one coroutine backend, all completion orders within the deviation bound',
            'bfs': stats_all, 'overlap_pairs': len(pairs), 'overlap_executions': tot.executions,
            'overlap_call_orders': len(tot.orders), 'overlap_by_deviations': {str(k): v for k, v in tot.by_dev.items()},
            'overlap_outcomes': len(tot.outcomes),
        })
        chk.assumptions += ['chunker fixed to 8-byte chunks (min=max=8) so overlap between file sets is exact',
                            'scrypt n=4 r=1 for speed', 'file sets F1..F3; at most 2 snapshots per delete']
    finally:
        H.cleanup_fixed_root()
    return chk.finish()


if __name__ == '__main__':
    sys.exit(common.run_main(main))
