"""C04 - damaged or substituted repository objects are never restored silently.

Exhaustive fault enumeration over three small repositories (unencrypted,
AES-GCM, ChaCha20-Poly1305), two snapshots with a shared chunk: for EVERY chunk
and snapshot object every bit flip, every truncation length, extension by 1 and
16 bytes, every swap of two objects, every replay of an object under another
name, deletion; pairs of damages on two objects. Oracle: restore raises, or the
restored tree is exactly the original. Variants: the same Repository object
restores before and after the damage; a failed restore is retried with the
snapshot cache it left behind."""
import itertools
import os
import shutil
import sys
from pathlib import Path

sys.path.insert(0, str(Path(__file__).resolve().parent.parent))
from mc import common

R = common.bootstrap()
from mc import dsched, explore, hist as H, world as W  # noqa: E402

PID = 'C04'
REPOS = {
    'unenc': W.default_settings(False, chunking={'min_length': 8, 'max_length': 8}, hashing={'name': 'sha2', 'bits': 256}),
    'aes': W.default_settings(True, chunking={'min_length': 8, 'max_length': 8}, hashing={'name': 'blake2b', 'length': 16},
                              cipher={'name': 'aes_gcm', 'key_bits': 128}),
    'chacha': W.default_settings(True, chunking={'min_length': 8, 'max_length': 8}, hashing={'name': 'blake2b', 'length': 16},
                                 cipher={'name': 'chacha20_poly1305'}),
}
_SETUP = {}


def setup(kind):
    """config + snapshot(F2) + snapshot(F3): y changes between them, chunks B2,B3 shared."""
    if kind not in _SETUP:
        fsdirs = H.materialize()
        st = W.Store()
        W.set_random('c04-' + kind)
        W.set_clock()
        key = W.run(W.a_init, st, REPOS[kind], b'pw')
        user = W.User('u', b'pw', key) if key else None

        async def go():
            repo = await W.a_open(st, user)
            with W.captured():
                a = await repo.snapshot(paths=[fsdirs['F2']])
                b = await repo.snapshot(paths=[fsdirs['F3']])
                await repo.close()
            return a, b

        a, b = W.run(go)
        # expected result of an unfiltered restore: newest version of every path
        want = {}
        for fsid in ('F2', 'F3'):
            for rel, data in H.FILESETS[fsid].items():
                want[str(fsdirs[fsid] / rel)] = data
        _SETUP[kind] = {'o': dict(st.o), 'user': user, 'want': want, 'snaps': [a.location, b.location]}
        tree, exc = do_restore(kind, _SETUP[kind]['o'])
        assert exc is None and tree == want, (exc, tree, want)
    return _SETUP[kind]


def do_restore(kind, objects, cache=None, repo_holder=None, store=None, target=None, keep=False):
    s = _SETUP[kind]
    sc = H.worker_scratch()
    target = target if target is not None else sc.sub()
    store = store or W.Store(objects)

    async def go():
        if repo_holder is not None and 'repo' in repo_holder:
            repo = repo_holder['repo']
        else:
            repo = await W.a_open(store, s['user'], N=2, cache=cache)
            if repo_holder is not None:
                repo_holder['repo'] = repo
        with W.captured():
            return await repo.restore(path=target)

    try:
        W.run(go)
        exc = None
    except Exception as e:
        exc = e
    tree = {p[len(str(target)):]: v[0] for p, v in W.read_tree(target).items()}
    if not keep:
        shutil.rmtree(target, ignore_errors=True)
    return tree, exc


def damage(objects, spec):
    o = dict(objects)
    kind = spec[0]
    if kind == 'flip':
        _, name, bit = spec
        b = bytearray(o[name])
        b[bit // 8] ^= 1 << (bit % 8)
        o[name] = bytes(b)
    elif kind == 'trunc':
        o[spec[1]] = o[spec[1]][:spec[2]]
    elif kind == 'append':
        o[spec[1]] = o[spec[1]] + bytes(range(1, spec[2] + 1))
    elif kind == 'swap':
        o[spec[1]], o[spec[2]] = o[spec[2]], o[spec[1]]
    elif kind == 'copy':
        o[spec[2]] = o[spec[1]]
    elif kind == 'delete':
        del o[spec[1]]
    elif kind == 'pair':
        o = damage(damage(o, spec[1]), spec[2])
    return o


def area(name):
    return name.split('/', 1)[0]


def expected_for(s, spec):
    """A removed snapshot object is a deleted snapshot: the remaining ones define the result."""
    want = dict(s['want'])
    specs = [spec[1], spec[2]] if spec[0] == 'pair' else [spec]
    removed = [sp[1] for sp in specs if sp[0] == 'delete' and sp[1].startswith('snapshots/')]
    if removed:
        fsdirs = H.materialize()
        want = {}
        for fsid, loc in zip(('F2', 'F3'), s['snaps']):
            if loc in removed:
                continue
            for rel, data in H.FILESETS[fsid].items():
                want[str(fsdirs[fsid] / rel)] = data
    return want


def run_batch(args):
    kind, specs, mode = args
    s = setup(kind)
    vs = []
    n = 0
    outcomes = {'error': 0, 'intact': 0}
    for spec in specs:
        n += 1
        want = expected_for(s, spec)
        if mode == 'fresh':
            tree, exc = do_restore(kind, damage(s['o'], spec))
        elif mode == 'same-object':
            # one long-lived Repository (one event loop): restore, then the damage happens, then restore again
            store = W.Store(s['o'])
            sc = H.worker_scratch()
            t1, t2 = sc.sub(), sc.sub()

            async def both():
                repo = await W.a_open(store, s['user'], N=2)
                with W.captured():
                    await repo.restore(path=t1)
                    first = {p[len(str(t1)):]: v[0] for p, v in W.read_tree(t1).items()}
                    store.o.clear()
                    store.o.update(damage(s['o'], spec))
                    await repo.restore(path=t2)
                return first

            exc = None
            first = None
            try:
                first = W.run(both)
            except Exception as e:
                exc = e
            tree = {p[len(str(t2)):]: v[0] for p, v in W.read_tree(t2).items()}
            base_ok = ({p[len(str(t1)):]: v[0] for p, v in W.read_tree(t1).items()} == s['want'])
            shutil.rmtree(t1, ignore_errors=True)
            shutil.rmtree(t2, ignore_errors=True)
            if not base_ok:
                vs.append(({'repo': kind, 'mode': mode, 'what': 'baseline-restore-failed'}, {'spec': spec, 'exc': repr(exc)}))
                continue
        elif mode == 'retry-same-target':
            # a first restore of the damaged repository (it fails or not), then a second one into the SAME directory
            sc = H.worker_scratch()
            tgt = sc.sub()
            objs = damage(s['o'], spec)
            t1, e1 = do_restore(kind, objs, target=tgt, keep=True)
            tree, exc = do_restore(kind, objs, target=tgt, keep=False)
        elif mode in ('invalid-cache-half', 'invalid-cache-empty'):
            # the cache was filled by an earlier good run, then every entry was left cut short / empty (an interrupted
            # write), then the repository is damaged: whatever is fetched again must be verified like a first download
            sc = H.worker_scratch()
            cache = sc.sub()
            t0, e0 = do_restore(kind, dict(s['o']), cache=cache)
            if e0 is not None or t0 != s['want']:
                vs.append(({'repo': kind, 'mode': mode, 'what': 'baseline-restore-failed'}, {'spec': spec, 'exc': repr(e0)}))
                shutil.rmtree(cache, ignore_errors=True)
                continue
            for dpath, _dirs, files in os.walk(cache):
                for fn in files:
                    fp = os.path.join(dpath, fn)
                    data = open(fp, 'rb').read()
                    open(fp, 'wb').write(data[:len(data) // 2] if mode.endswith('half') else b'')
            tree, exc = do_restore(kind, damage(s['o'], spec), cache=cache)
            shutil.rmtree(cache, ignore_errors=True)
        else:  # retry-with-cache: a first attempt on the damaged repository, then a retry sharing the cache directory
            sc = H.worker_scratch()
            cache = sc.sub()
            objs = damage(s['o'], spec)
            t1, e1 = do_restore(kind, objs, cache=cache)
            if e1 is None and t1 != want:
                vs.append(({'repo': kind, 'mode': mode, 'damage': spec[0], 'area': area(spec[1]) if isinstance(spec[1], str) else 'pair',
                            'what': 'silent-wrong-restore', 'attempt': 1}, {'spec': spec, 'got': t1}))
            tree, exc = do_restore(kind, objs, cache=cache)
            shutil.rmtree(cache, ignore_errors=True)
        if exc is not None:
            outcomes['error'] += 1
            continue
        if tree == want:
            outcomes['intact'] += 1
            continue
        vs.append(({'repo': kind, 'mode': mode, 'damage': spec[0],
                    'area': area(spec[1]) if isinstance(spec[1], str) else 'pair', 'what': 'silent-wrong-restore'},
                   {'spec': spec, 'got': {Path(k).name: v for k, v in tree.items()},
                    'want': {Path(k).name: v for k, v in want.items()}}))
    return n, outcomes, vs


@explore.register
def run_order(params, prefix):
    """One restore of a damaged repository on the coroutine backend; the explorer enumerates the
    completion orders of the downloads (the failing one may complete first, in the middle or last)."""
    kind, spec = params['repo'], tuple(tuple(x) if isinstance(x, list) else x for x in params['spec'])
    s = setup(kind)
    sc = H.worker_scratch()
    target = sc.sub()
    store = W.Store(damage(s['o'], spec))

    async def go():
        repo = await W.a_open(store, s['user'], N=params['N'], backend=W.AMemBackend)
        with W.captured():
            return await repo.restore(path=target)

    x = dsched.run_one(lambda loop, sch: go(), prefix, horizon=6000, want_env=True)
    out = {'points': x.points, 'err': None, 'viol': [], 'order': explore.canon_order(store.calls)}
    tree = {p[len(str(target)):]: v[0] for p, v in W.read_tree(target).items()}
    shutil.rmtree(target, ignore_errors=True)
    if x.err is not None:
        out['err'] = 'hang' if isinstance(x.err, dsched.Hang) else 'capped' if isinstance(x.err, dsched.Horizon) else 'diverged'
        out['errmsg'] = str(x.err)[:200]
        out['outcome'] = out['obs'] = ('ERR', out['err'])
        return out
    if x.exc is not None:
        out['outcome'] = ('error', type(x.exc).__name__)
    elif tree == expected_for(s, spec):
        out['outcome'] = ('intact',)
    else:
        out['outcome'] = ('silent-wrong',)
        out['viol'].append(({'repo': kind, 'mode': 'completion-orders', 'damage': spec[0], 'area': area(spec[1]),
                             'what': 'silent-wrong-restore'}, {'params': params, 'spec': spec}))
    out['obs'] = (out['outcome'], tuple(store.calls))
    return out


def single_damages(s, t):
    names = sorted(k for k in s['o'] if k.startswith(('data/', 'snapshots/')))
    out = []
    for nme in names:
        ln = len(s['o'][nme])
        for bit in range(ln * 8):
            out.append(('flip', nme, bit))
        for k in range(ln):
            out.append(('trunc', nme, k))
        out.append(('append', nme, 1))
        out.append(('append', nme, 16))
        out.append(('delete', nme))
    for a, b in itertools.combinations(names, 2):
        out.append(('swap', a, b))
    for a, b in itertools.permutations(names, 2):
        out.append(('copy', a, b))
    return out


def reduced_damages(s):
    names = sorted(k for k in s['o'] if k.startswith(('data/', 'snapshots/')))
    out = []
    for nme in names:
        ln = len(s['o'][nme])
        for bit in sorted({0, 7, 8 * (ln // 2), 8 * ln - 1}):
            out.append(('flip', nme, bit))
        out.append(('trunc', nme, ln - 1))
        out.append(('trunc', nme, 0))
        out.append(('delete', nme))
    for a, b in itertools.combinations(names, 2):
        if area(a) == area(b):
            out.append(('swap', a, b))
            out.append(('copy', a, b))
    return out


def replay(case):
    if 'params' in case:
        r = run_order(case['params'], case.get('choices', []))
        return {'violations': [v[0] for v in r['viol']], 'outcome': r['outcome']}
    spec = case['spec']

    def tup(x):
        return tuple(tup(y) if isinstance(y, list) else y for y in x)

    spec = tup(spec)
    out = []
    for kind in REPOS:
        s = setup(kind)
        names = set(s['o'])
        flat = [spec[1], spec[2]] if spec[0] == 'pair' else [spec]
        if all(all((not isinstance(x, str)) or ('/' not in x) or x in names for x in sp) for sp in flat):
            for mode in ('fresh', 'same-object', 'retry-with-cache', 'invalid-cache-half', 'invalid-cache-empty', 'retry-same-target'):
                n, oc, vs = run_batch((kind, [spec], mode))
                out += [v[0] for v in vs]
    return {'violations': out}


def main():
    t = common.tier()
    chk = common.Check(PID, 'fault_enumeration')
    chk.unexercised_whats = {'baseline-restore-failed'}   # a failing command is not what C04 is about: reported as 'could not exercise'
    H.materialize()
    try:
        batches = []
        counts = {}
        for kind in REPOS:
            s = list(common.pmap(setup, [kind], procs=1, force=True))[0]
            _SETUP[kind] = s
            singles = single_damages(s, t)
            red = reduced_damages(s)
            def objs(sp):
                return {x for x in sp[1:] if isinstance(x, str)}
            pairs = [('pair', a, b) for a, b in itertools.combinations(red, 2) if not (objs(a) & objs(b))]
            if t == 'quick':
                pairs = pairs[::7]
            counts[kind] = {'objects': len([k for k in s['o'] if '/' in k]), 'single': len(singles), 'pairs': len(pairs),
                            'bytes': sum(len(v) for k, v in s['o'].items() if '/' in k)}
            work = [('fresh', singles), ('fresh', pairs), ('same-object', red if t == 'quick' else singles[::3] + red),
                    ('retry-with-cache', [d for d in (red if t == 'quick' else singles[::3] + red)]),
                    ('invalid-cache-half', [d for d in (red if t == 'quick' else singles[::3] + red) if 'snapshots/' in str(d)]),
                    ('invalid-cache-empty', [d for d in red if 'snapshots/' in str(d)]),
                    ('retry-same-target', [d for d in (red if t == 'quick' else singles[::5] + red)])]
            for mode, specs in work:
                specs = common.shuffled(specs, kind + mode)
                step = max(50, len(specs) // 64)
                for i in range(0, len(specs), step):
                    batches.append((kind, specs[i:i + step], mode))
        n = 0
        outcomes = {'error': 0, 'intact': 0}
        for k, oc, vs in common.pmap(run_batch, batches, ordered=False):
            n += k
            for a in oc:
                outcomes[a] += oc[a]
            for sig, detail in vs:
                chk.violation(sig, detail)
        # every completion order of the downloads, for one damage per chunk object
        tot = explore.Agg()
        for kind in REPOS:
            s_ = _SETUP[kind]
            for nme in sorted(k for k in s_['o'] if k.startswith('data/')):
                for spec in (('flip', nme, 5), ('trunc', nme, 3)) + ((('delete', nme),) if t == 'thorough' else ()):
                    for N in ((2,) if t == 'quick' else (1, 2, 3)):
                        agg, info = explore.explore(run_order, {'repo': kind, 'spec': list(spec), 'N': N,
                                                                 '_free': ['env-complete']}, 0)
                        for sig, d in agg.viol:
                            chk.violation(sig, d)
                        for kk, v in agg.errs.items():
                            chk.harness_error(f'{kk}: {v[2]}')
                        tot.merge(agg)
        n += tot.executions
        chk.sample({'repo': 'aes', 'damage': ['flip', '<every object>', '<every bit>']})
        chk.sample({'repo': 'unenc', 'damage': ['pair', ['trunc', 'data/..', 7], ['copy', 'snapshots/A', 'snapshots/B']]})
        chk.coverage.update({
            'evaluations': n, 'distinct_nontrivial': n,
            'rule': 'every bit flip / truncation length / extension / swap / replay / deletion of every chunk and snapshot '
                    'object of 3 repositories, pairs of reduced damages on two objects, each followed by an unfiltered restore; '
                    'every case is distinct by construction; variants with a long-lived Repository and with a cache-sharing retry',
            'per_repository': counts, 'outcomes': outcomes, 'completion_order_executions': tot.executions,
            'completion_orders': len(tot.orders),
        })
        chk.assumptions += ['objects of a few hundred bytes', 'adversary does not know the keys',
                            'a removed snapshot object is indistinguishable from a deleted snapshot: the remaining snapshots define the expected tree']
    finally:
        H.cleanup_fixed_root()
    return chk.finish()


if __name__ == '__main__':
    sys.exit(common.run_main(main))
