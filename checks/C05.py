"""C05 - an encrypted repository reveals no plaintext at rest.

E3: every encrypted configuration (ciphers x key sizes x hash settings) x a
history {init, add-key shared/independent/clone, two snapshots with a note,
delete, clean} with the key written to a file and to stdout, real os.urandom;
both with a fresh Repository per command and with one long-lived Repository.
Every payload EVER written to the backend (not only the final state), every
object name, key file and captured stdout is searched for 8-byte windows of
every secret in raw / hex / base64 form; the independent reader checks the
structure (names are keyed MACs, blobs are nonce+ciphertext+tag) and that no two
ciphertexts under one key share a nonce."""
import base64
import json
import os
import shutil
import sys
from pathlib import Path

sys.path.insert(0, str(Path(__file__).resolve().parent.parent))
from mc import common

R = common.bootstrap()
from mc import hist as H, world as W  # noqa: E402
from mc.ref import format as F  # noqa: E402

PID = 'C05'
CIPHERS = [{'name': 'aes_gcm', 'key_bits': 128}, {'name': 'aes_gcm', 'key_bits': 192}, {'name': 'aes_gcm', 'key_bits': 256},
           {'name': 'chacha20_poly1305'}]
HASHES = [{'name': 'blake2b', 'length': 64}, {'name': 'blake2b', 'length': 32}, {'name': 'blake2b', 'length': 16},
          {'name': 'sha2', 'bits': 224}, {'name': 'sha2', 'bits': 256}, {'name': 'sha2', 'bits': 384}, {'name': 'sha2', 'bits': 512},
          {'name': 'sha3', 'bits': 224}, {'name': 'sha3', 'bits': 256}, {'name': 'sha3', 'bits': 384}, {'name': 'sha3', 'bits': 512}]
NOTE = 'NOTE-7f3a-quarterly-figures'
PASSWORDS = {'A': b'correct-horse-battery-A', 'B': b'tr0ub4dor-and-3-B', 'C': b'independent-pass-C'}
SECRET_BLOCKS = [bytes.fromhex(h) for h in (
    '9f8e7d6c5b4a39281706f5e4d3c2b1a0', '1a2b3c4d5e6f708192a3b4c5d6e7f809', 'deadbeefcafef00d0123456789abcdef',
    '0f1e2d3c4b5a69788796a5b4c3d2e1f0', '13579bdf02468ace8642fdb97531eca0')]
TREE1 = {'SECRETNAME-alpha.bin': SECRET_BLOCKS[0] + SECRET_BLOCKS[1] + SECRET_BLOCKS[0], 'dir-omega/SECRETNAME-beta': SECRET_BLOCKS[2]}
TREE2 = {'SECRETNAME-alpha.bin': SECRET_BLOCKS[0] + SECRET_BLOCKS[3], 'SECRETNAME-gamma': SECRET_BLOCKS[4] * 2}
# one chunk repeated more often than the chunk queue holds (for the stale-exists mode)
TREE1_REP = dict(TREE1, **{'SECRETNAME-repeated': SECRET_BLOCKS[1] * 64})


def windows(b, w=8):
    return {b[i:i + w] for i in range(0, max(1, len(b) - w + 1))} if len(b) >= w else set()


def encodings(secret: bytes, w=8):
    """Search needles for one secret: raw w-byte windows, hex (both cases) 2w-char windows, base64 windows of
    the three alignments. w is 8 except for secrets made of decimal digits only: object names are hex strings, in
    which an 8-digit run occurs by chance often enough to matter over many runs (a false alarm met once)."""
    needles = set(windows(secret, w))
    hx = secret.hex().encode()
    needles |= windows(hx, 2 * w) | windows(hx.upper(), 2 * w)
    bw = (4 * w) // 3
    for phase in range(3):
        enc = base64.standard_b64encode(secret[phase:])
        core = enc.rstrip(b'=')[:-2] if len(enc) > 4 else b''
        needles |= windows(core, bw)
    return needles


class Taint:
    def __init__(self):
        self.needles = {}   # needle -> label
        self.sizes = set()

    def add(self, label, secret):
        if isinstance(secret, str):
            secret = secret.encode('utf-8', 'surrogateescape')
        if len(secret) < 8:
            return
        w = 14 if secret.isdigit() else 8
        if len(secret) < w:
            return
        for nd in encodings(secret, w):
            self.needles.setdefault(nd, label)
            self.sizes.add(len(nd))

    def scan(self, blob):
        if isinstance(blob, str):
            blob = blob.encode('utf-8', 'surrogateescape')
        hits = []
        for w in sorted(self.sizes):
            for i in range(0, len(blob) - w + 1):
                lab = self.needles.get(blob[i:i + w])
                if lab is not None:
                    hits.append((lab, i))
                    break
        return hits


def run_config(args):
    ci, ha, mode, chunker = args
    sc = H.worker_scratch()
    root = sc.sub()
    src1, src2 = root / 'src1', root / 'src2'
    W.write_tree(src1, TREE1_REP if mode == 'stale-exists' else TREE1, mtime_base=1_611_111_111)
    W.write_tree(src2, TREE2, mtime_base=1_622_222_222)
    st = W.Store()
    if mode == 'stale-exists':
        # an eventually consistent store: every third existence check of a stored object says "missing"
        cnt = {'n': 0}

        def stale(name, idx):
            cnt['n'] += 1
            return name.startswith('data/') and cnt['n'] % 3 == 0

        st.stale_exists = stale
    W.set_random('c05', real=True)   # nonce freshness is what this check looks at
    W.set_clock()
    settings = {'chunking': {'min_length': chunker[0], 'max_length': chunker[1]}, 'hashing': dict(ha),
                'encryption': {'cipher': dict(ci), 'kdf': dict(W.FAST_KDF)}}
    sig0 = {'cipher': ci['name'], 'mode': mode}
    detail0 = {'cipher': ci, 'hash': ha, 'mode': mode, 'chunker': chunker}
    vs = []
    stdout_all = []
    keyfiles = {}

    def bad(what, **kw):
        vs.append((dict(sig0, what=what, **{k: kw[k] for k in ('secret', 'where') if k in kw and what.startswith('secret-')}),
                   dict(detail0, **kw)))

    users = {}
    step_errors = []
    cache = root / 'cache' if mode == 'shared-cache' else None

    def mk():
        return W.make_repo(st, N=2, cache=cache)

    async def history():
        import copy
        if cache is not None:
            # the user's one cache directory has already served another, unencrypted repository
            st0 = W.Store()
            r0 = W.make_repo(st0, N=2, cache=cache)
            with W.captured():
                await r0.init(settings={'chunking': {'min_length': chunker[0], 'max_length': chunker[1]},
                                        'hashing': dict(ha), 'encryption': None})
                await r0.close()
            r0 = W.make_repo(st0, N=2, cache=cache)
            with W.captured():
                await r0.unlock()
                await r0.snapshot(paths=[src2], note='other repository')
                await r0.list_snapshots()
                await r0.close()
        # init: key to stdout
        repo = mk()
        if mode == 'reinit':
            # the same Repository object created an unencrypted repository before (then the store was wiped and the
            # repository is created again, encrypted): nothing of the first life may carry over
            with W.captured():
                await repo.init(settings={'chunking': {'min_length': chunker[0], 'max_length': chunker[1]},
                                          'hashing': dict(ha), 'encryption': None})
                await repo.snapshot(paths=[src1], note='first life')
                await repo.list_snapshots()
            st.o.clear()
            del st.mutations[:]
        with W.captured() as (o, e):
            res = await repo.init(password=PASSWORDS['A'], settings=copy.deepcopy(settings))
        stdout_all.append(o.getvalue() + e.getvalue())
        keyA = repo.serialize(res.key)
        keyfiles['A(stdout)'] = keyA
        users['A'] = W.User('A', PASSWORDS['A'], keyA)
        repos = {'A': repo} if mode in ('long-lived', 'stale-exists', 'reinit') else {}

        async def get(u):
            if mode in ('long-lived', 'stale-exists', 'reinit') and u in repos:
                return repos[u]
            r = mk()
            with W.captured():
                await r.unlock(password=users[u].password, key=users[u].key)
            if mode in ('long-lived', 'stale-exists', 'reinit'):
                repos[u] = r
            return r

        # add-key: shared (to file), independent (stdout), clone (to file)
        for new, shared, pw, to_file in (('B', True, PASSWORDS['B'], True), ('C', False, PASSWORDS['C'], False),
                                         ('A2', True, PASSWORDS['A'], True)):
            kpath = root / f'key-{new}.json' if to_file else None
            try:
                r = await get('A')
                with W.captured() as (o, e):
                    res = await r.add_key(password=pw, shared=shared, key_output_path=kpath,
                                          settings={'encryption': {'kdf': dict(W.FAST_KDF)}})
            except Exception as ex:
                step_errors.append(f'add-key {new}: {ex!r}'[:200])
                continue
            stdout_all.append(o.getvalue() + e.getvalue())
            kb = r.serialize(res.new_key)
            if to_file:
                if kpath.read_bytes() != kb:
                    bad('key-file-differs-from-returned-key')
                kb = kpath.read_bytes()
            keyfiles[new] = kb
            users[new] = W.User(new, pw, kb)
        names = []
        # from here on a failing command does not end the history: whatever was written is still searched
        for u, src in (('A', src1), ('B', src2), ('C', src1), ('A', src2)):
            if u not in users:
                continue
            try:
                r = await get(u)
                with W.captured() as (o, e):
                    s = await r.snapshot(paths=[src], note=NOTE)
                stdout_all.append(o.getvalue() + e.getvalue())
                names.append((u, s.name))
            except Exception as ex:
                step_errors.append(f'snapshot by {u}: {ex!r}'[:200])
        for u in ('A', 'B', 'C'):
            if u not in users:
                continue
            try:
                r = await get(u)
                with W.captured() as (o, e):
                    await r.list_snapshots()
            except Exception as ex:
                step_errors.append(f'list-snapshots by {u}: {ex!r}'[:200])
            # listings legitimately show the caller's own names/notes: not scanned
        try:
            r = await get('A')
            with W.captured() as (o, e):
                await r.delete_snapshots([names[0][1]], confirm=False)
                await r.clean()
            stdout_all.append(o.getvalue() + e.getvalue())
            r = await get('C')
            with W.captured() as (o, e):
                await r.clean()
            stdout_all.append(o.getvalue() + e.getvalue())
        except Exception as ex:
            step_errors.append(f'delete/clean: {ex!r}'[:200])

    try:
        W.run(history)
    except Exception as e:
        step_errors.append(repr(e)[:300])
    if 'A' not in users:
        bad('history-failed', err=step_errors[:3])
        shutil.rmtree(root, ignore_errors=True)
        return 0, vs

    # ---- collect secrets
    taint = Taint()
    for tree in (TREE1, TREE2):
        for rel, data in tree.items():
            taint.add('file-content', data)
            taint.add('file-name', rel.split('/')[-1])
    taint.add('file-path', str(src1))
    taint.add('note', NOTE)
    for u, pw in PASSWORDS.items():
        taint.add('password', pw)
    readers = {}
    every_written = [(name, data) for kind, name, data in st.mutations if kind == 'put']
    final = dict(st.o)
    all_objects = dict(final)
    for name, data in every_written:
        all_objects.setdefault(name, data)
    for u, usr in users.items():
        try:
            rd = readers[u] = F.Reader(final, usr.password, usr.key)
        except Exception as e:
            bad('reader-cannot-open', user=u, err=repr(e)[:200])
            continue
        taint.add('user-key', rd.userkey)
        for fld in ('shared_key', 'mac_params', 'shared_kdf_params', 'chunker_params'):
            taint.add('private.' + fld, rd.private[fld])
    # digests and metadata, from the decrypted snapshots (all snapshot bodies ever written)
    nonce_seen = {}   # (key, nonce) -> where

    def note_nonce(key, blob, nlen, where):
        k = (key, blob[:nlen])
        if k in nonce_seen and nonce_seen[k][1] != blob:
            bad('nonce-reused-under-one-key', where=[nonce_seen[k][0], where])
        nonce_seen[k] = (where, blob)

    nlen = 12
    for u, kb in keyfiles.items():
        owner = 'A' if u.startswith('A(') else u
        if owner in readers:
            kobj = F.loads(kb)
            if set(kobj) != {'kdf', 'kdf_params', 'private'} or not isinstance(kobj['private'], bytes):
                bad('key-file-private-section-not-sealed', key=u, keys=sorted(kobj), private_type=type(kobj.get('private')).__name__)
            else:
                note_nonce(readers[owner].userkey, kobj['private'], nlen, f'private section of key {u}')
    snap_bodies = [(n, d) for n, d in every_written if n.startswith('snapshots/')]
    chunk_bodies = [(n, d) for n, d in every_written if n.startswith('data/')]
    plain_digests = set()
    for name, body in snap_bodies:
        obj = F.loads(body)
        if set(obj) != {'chunks', 'data'} or not all(isinstance(x, bytes) for x in obj.values()):
            bad('snapshot-body-not-two-blobs', name=name)
            continue
        opened = False
        for u, rd in readers.items():
            objs = dict(final)
            objs[name] = body
            rd2 = F.Reader.__new__(F.Reader)
            rd2.__dict__.update(rd.__dict__)
            rd2.o = objs
            try:
                if not rd2.owns_snapshot_name(name):
                    continue
                snap = rd2.snapshot(name)
            except F.FormatError:
                continue
            note_nonce(rd.shared(rd.H(obj['data'])), obj['chunks'], nlen, f'chunk table of {name[:24]}')
            for d in snap['chunks']:
                plain_digests.add(d)
            if snap['data'] is not None:
                opened = True
                note_nonce(rd.userkey, obj['data'], nlen, f'private data of {name[:24]}')
                for f in snap['data']['files']:
                    plain_digests.add(f['digest'])
                    for kmd in ('st_mtime_ns', 'st_atime_ns', 'st_ctime_ns'):
                        taint.add('metadata', str(f['metadata'][kmd]))
                if name == rd.snapshot_location(body) and rd.H(body).hex() == rd.split_snapshot_location(name)[0]:
                    pass
        if not opened:
            bad('snapshot-not-decodable-by-any-key', name=name)
    for d in plain_digests:
        taint.add('content-digest', d)
    # chunk objects: name is a keyed MAC of the digest, body = nonce + ct + tag under KDF(shared, digest)
    fam_readers = {'fam1': readers.get('A'), 'fam2': readers.get('C')}
    for name, body in chunk_bodies:
        ok = False
        for fam, rd in fam_readers.items():
            if rd is None or not rd.owns_chunk_name(name):
                continue
            for d in plain_digests:
                if rd.chunk_location(d) == name:
                    try:
                        plain = rd.cipher.decrypt(body, rd.shared(d))
                    except F.FormatError:
                        bad('chunk-not-authenticated-ciphertext', name=name)
                        ok = True
                        break
                    if len(body) != nlen + len(plain) + 16:
                        bad('chunk-length-not-nonce+plaintext+tag', name=name)
                    if rd.H(plain) != d:
                        bad('chunk-plaintext-hash-mismatch')
                    note_nonce(rd.shared(d), body, nlen, f'chunk {name[:20]}')
                    if d.hex() in name:
                        bad('chunk-name-contains-plain-digest')
                    ok = True
                    break
        if not ok:
            bad('chunk-name-not-a-keyed-mac-of-a-known-digest', name=name)
    # nonces must be random: over this many ciphertexts no byte position of the nonce may be constant
    nonces = [k[1] for k in nonce_seen]
    if len(nonces) >= 40:
        for pos in range(nlen):
            if len({n[pos] for n in nonces}) < 2:
                bad('nonce-byte-constant', position=pos, ciphertexts=len(nonces))
                break
    # ---- the search
    nscan = 0
    for name, body in list(all_objects.items()) + every_written:
        if name == 'config':
            cfg = json.loads(body)
            if set(cfg) - {'hashing', 'chunking', 'encryption'}:
                bad('config-has-unexpected-fields', fields=sorted(cfg))
            continue
        nscan += 1
        for lab, pos in taint.scan(body)[:1]:
            bad('secret-in-object-body', secret=lab, where=name.split('/')[0], offset=pos)
        for lab, pos in taint.scan(name)[:1]:
            bad('secret-in-object-name', secret=lab, where=name.split('/')[0])
    for u, kb in keyfiles.items():
        nscan += 1
        for lab, pos in taint.scan(kb)[:1]:
            bad('secret-in-key-file', secret=lab, where=u)
    for text in stdout_all:
        nscan += 1
        for lab, pos in taint.scan(text)[:1]:
            if lab in ('file-path', 'file-name'):
                continue   # status lines on the user's own terminal name the key output path only
            bad('secret-on-stdout', secret=lab)
    # only the config parses without a key
    for name, body in all_objects.items():
        if name != 'config' and not name.startswith(('data/', 'snapshots/')):
            bad('unexpected-object', name=name)
    if step_errors and not vs:
        bad('history-failed', err=step_errors[:3])     # nothing disclosed, but not everything could be exercised
    shutil.rmtree(root, ignore_errors=True)
    return nscan, vs


def replay(case):
    n, vs = run_config((case['cipher'], case['hash'], case['mode'], tuple(case['chunker'])))
    return {'violations': [v[0] for v in vs]}


def main():
    t = common.tier()
    chk = common.Check(PID, 'exploration')
    chk.unexercised_whats = {'history-failed'}   # a failing command is not what C05 is about: reported as 'could not exercise'
    cases = []
    for ci in CIPHERS:
        for ha in HASHES:
            for mode in ('fresh', 'long-lived', 'shared-cache', 'reinit'):
                cases.append((ci, ha, mode, (4, 8)))
    for ch in ((8, 16), (16, 16), (1, 4)):
        for ci in (CIPHERS[0], CIPHERS[3]):
            cases.append((ci, HASHES[0], 'fresh', ch))
    for ci in CIPHERS:
        for ch in ((16, 16), (4, 8)):
            cases.append((ci, HASHES[1], 'stale-exists', ch))
    n = scanned = 0
    for k, vs in common.pmap(run_config, common.shuffled(cases, 'c05'), ordered=False):
        n += 1
        scanned += k
        for sig, d in vs:
            chk.violation(sig, d)
    chk.sample({'cipher': CIPHERS[0], 'hash': HASHES[4], 'mode': 'long-lived',
                'history': 'init, add-key shared/independent/clone, 4 snapshots with note, delete, clean x2'})
    chk.coverage.update({
        'evaluations': scanned, 'distinct_nontrivial': n,
        'rule': 'every cipher x hash x {fresh, long-lived Repository, cache directory shared with an unencrypted repository} (+ chunker variants, stale existence answers); evaluations = blobs searched (every '
                'payload ever written, names, key files, stdout); distinct = configurations',
        'configurations': n, 'secrets': ['file contents', 'file names/paths', 'note', 'metadata timestamps', 'content digests',
                                         'passwords', 'user keys', 'shared key', 'MAC key', 'KDF/chunker params'],
    })
    chk.assumptions += ['bounded taint search (8-byte windows; raw, hex, base64), not a cryptographic proof',
                        'sizes, counts and timing are visible by design']
    return chk.finish()


if __name__ == '__main__':
    sys.exit(common.run_main(main))
