"""C16 - every request sent to an S3 service is correctly signed.

E3: the real S3Compatible / S3 adapters talk to a fake service installed as the
httpx transport; every request is captured from the wire (method, raw request
target, received headers, body) and re-verified by an independent SigV4
implementation. Product of: one object name / prefix per character class x every
operation (streams of 0, 1, 3 chunks; listings of 1 and 3 pages with
continuation tokens) x clocks (year end, single-digit month/day, midnight
crossing inside one client) x {S3, S3Compatible} x {http, https} x host with
port x credentials; plus one transient fault at every position of a streamed
upload (the retry must be signed for what it actually sends)."""
import datetime as dt
import io
import sys
from pathlib import Path

sys.path.insert(0, str(Path(__file__).resolve().parent.parent))
from mc import common

R = common.bootstrap()
from mc import world as W  # noqa: E402
from mc.fakes import services as FS  # noqa: E402
from mc.ref import sigv4  # noqa: E402
import replicat.backends.s3c as S3C  # noqa: E402
import replicat.backends.s3 as S3M  # noqa: E402

PID = 'C16'

SEGMENTS = {
    'unreserved': 'plain-Name_0.9~x', 'space': 'we ird', 'plus': 'p+q', 'percent': 'x%41y', 'percent-bare': '100%', 'equals': 'k=v',
    'ampersand': 'a&b', 'star': 's*t', 'tilde': '~t', 'bang': 'e!f', 'quote': "q'r", 'parens': 'g(h)', 'comma-colon': 'c,d:e',
    'at-dollar': '@$', 'question': 'wh?at', 'hash': 'ha#sh', 'semicolon': 'se;mi', 'utf8-2': 'ü', 'utf8-3': '€uro', 'utf8-4': 'smile😀',
    'brackets': '[x]{y}', 'backslash': 'b\\s', 'pipe-caret': 'p|c^', 'lt-gt-quote': '<a>"b"', 'backtick': '`bt`',
}
CLOCKS = {
    'year-end': dt.datetime(2023, 12, 31, 23, 59, 59), 'single-digits': dt.datetime(2024, 2, 3, 4, 5, 6),
    'midnight': dt.datetime(2024, 2, 29, 0, 0, 0), 'leap': dt.datetime(2024, 2, 29, 12, 0, 0),
}


class Clock:
    now = dt.datetime(2024, 1, 1)
    rollover = None     # (k, before, after): the k-th reading of the clock from now on is the first to see `after`
    readings = 0


class VDT(dt.datetime):
    @classmethod
    def utcnow(cls):
        n = Clock.now
        if Clock.rollover is not None:
            Clock.readings += 1
            k, before, after = Clock.rollover
            n = before if Clock.readings < k else after
        return cls(n.year, n.month, n.day, n.hour, n.minute, n.second, n.microsecond)


    @classmethod
    def now(cls, tz=None):
        n = cls.utcnow()
        return n if tz is None else n.replace(tzinfo=dt.timezone.utc).astimezone(tz)


W.install_clock(S3C, VDT)
if not any(v is VDT for v in vars(S3C).values()) and not hasattr(S3C, 'datetime'):
    S3C.datetime = VDT


def make_client(kind, scheme, host, creds):
    key_id, secret, region = creds
    if kind == 's3':
        c = S3M.S3('bucket', key_id=key_id, access_key=secret, region=region)
        host = f's3.{region}.amazonaws.com'
    else:
        c = S3C.S3Compatible('bucket', key_id=key_id, access_key=secret, region=region, host=host, scheme=scheme)
    fake = FS.install(c, FS.FakeS3('bucket', page=2))
    fake.body_chunk = 7
    return c, fake, host


def verify_all(fake, creds, host, sig0, detail0, start=0, only_complete=True):
    vs = []
    key_id, secret, region = creds
    for i, r in enumerate(fake.requests[start:], start):
        if not r.complete:
            continue
        rhost = r.host.decode('ascii', 'replace') if isinstance(r.host, bytes) else r.host
        probs = sigv4.verify(r.method, r.target, r.headers, r.body, secret=secret, expect_key_id=key_id,
                             expect_region=region, expect_host=host if rhost == host else rhost)
        for p in probs:
            q = r.target.partition(b'?')[2]
            vs.append((dict(sig0, what=p, method=r.method, has_query=bool(q),
                            space_in_query=(b'+' in q or b'%20' in q)),
                       dict(detail0, request_index=i, method=r.method, target=r.target.decode('ascii', 'replace'),
                            headers=[(k.decode(), v.decode('latin-1')) for k, v in r.headers if k != b'authorization'])))
    return vs


def name_case(args):
    cls, kind, scheme, host, creds, clock = args
    seg = SEGMENTS[cls]
    names = [seg, f'dir/{seg}/leaf', f'{seg}/x', f'data/ab/{seg}-tail', f'{seg}{seg}']
    Clock.now = CLOCKS[clock]
    sig0 = {'part': 'names', 'class': cls}
    detail0 = {'class': cls, 'kind': kind, 'scheme': scheme, 'host': host, 'clock': clock}
    out = {}

    async def go():
        c, fake, h = make_client(kind, scheme, host, creds)
        out['fake'], out['host'] = fake, h
        payloads = {}
        for i, n in enumerate(names):
            data = (n.encode() + b'|') * (i + 1)
            payloads[n] = data
            assert await c.exists(n) is False
            if i % 2 == 0:
                await c.upload(n, data)
            else:
                await c.upload_stream(n, io.BytesIO(data), len(data), max(1, len(data) // 3))
            assert await c.exists(n) is True
            assert await c.download(n) == data
            s = io.BytesIO()
            await c.download_stream(n, s, 5)
            assert s.getvalue() == data
        await c.upload_stream(names[0] + '-empty', io.BytesIO(b''), 0, 4)
        await c.upload_stream(names[0] + '-one', io.BytesIO(b'1'), 1, 4)
        for prefix in ('', seg, seg[:1], f'dir/{seg}', f'{seg}/', 'nomatch' + seg):
            listed = [x async for x in c.list_files(prefix)]
            want = sorted(n for n in fake.o if n.startswith(prefix))
            assert sorted(listed) == want, (prefix, listed, want)
        # the clock moves on (over midnight for the midnight clock) inside the same client
        Clock.now = Clock.now + dt.timedelta(seconds=2)
        if clock == 'year-end':
            Clock.now = dt.datetime(2024, 1, 1, 0, 0, 1)
        for n in names:
            await c.delete(n)
            assert await c.exists(n) is False
        await c.close()

    try:
        W.run(go)
    except AssertionError as e:
        # behaviour against the service is C13's business; here only note that signing could not be exercised
        out['assert'] = repr(e)[:200]
    except Exception as e:
        out['exc'] = repr(e)[:200]
    fake = out.get('fake')
    vs = verify_all(fake, creds, out['host'], sig0, detail0) if fake else []
    if 'exc' in out and not vs:
        vs.append((dict(sig0, what='operation-failed'), dict(detail0, err=out['exc'])))
    return len(fake.requests) if fake else 0, vs


def fault_case(args):
    kind_fault, k, nchunks, creds = args
    Clock.now = CLOCKS['leap']
    sig0 = {'part': 'retry', 'fault': kind_fault}
    detail0 = {'fault': kind_fault, 'k': k, 'chunks': nchunks}
    out = {}

    async def go():
        c, fake, h = make_client('s3c', 'https', 'minio.test:9000', creds)
        out['fake'], out['host'] = fake, h
        data = bytes(range(40 * nchunks))[:40 * nchunks - 3] if nchunks else b''
        state = {'done': False}

        def fault(idx, rec):
            if rec.method == 'PUT' and not state['done']:
                state['done'] = True
                if kind_fault == 'reset-mid-body':
                    return FS.Fault('fail-after-request-chunks', k=k)
                if kind_fault == '500':
                    return FS.Fault('status', code=500)
                if kind_fault == '503':
                    return FS.Fault('status', code=503)
                if kind_fault == 'connect':
                    return FS.Fault('connect-error')
            return None

        fake.fault_fn = fault
        await c.upload_stream('data/aa/obj', io.BytesIO(data), len(data), 40)
        out['stored'] = fake.o.get('data/aa/obj') == data
        await c.close()

    try:
        W.run(go)
    except Exception as e:
        out['exc'] = repr(e)[:200]
    fake = out['fake']
    vs = verify_all(fake, creds, out['host'], sig0, detail0)
    if out.get('stored') is False and not vs:
        vs.append((dict(sig0, what='stored-object-differs'), detail0))
    return len(fake.requests), vs


ROLLOVERS = {
    'midnight': (dt.datetime(2024, 2, 29, 23, 59, 59, 900000), dt.datetime(2024, 3, 1, 0, 0, 0, 100000)),
    'new-year': (dt.datetime(2024, 12, 31, 23, 59, 59, 900000), dt.datetime(2025, 1, 1, 0, 0, 0, 100000)),
}


def rollover_case(args):
    """The date changes between two consecutive readings of the clock: for every operation and every k, the k-th
    reading is the first one after midnight. A request whose timestamp and credential scope come from different
    readings carries a signature that does not verify."""
    op, which, k, creds = args
    sig0 = {'part': 'clock-rollover', 'op': op, 'boundary': which}
    detail0 = {'op': op, 'boundary': which, 'k': k, 'rollover': True}
    out = {}
    name = 'data/aa/obj-1'

    async def go():
        c, fake, h = make_client('s3c', 'https', 'minio.test:9000', creds)
        out['fake'], out['host'] = fake, h
        data = bytes(range(97))
        fake.o[name] = data
        fake.o['data/aa/second'] = b'2'
        fake.o['data/aa/third'] = b'3'
        Clock.readings = 0
        Clock.rollover = (k,) + ROLLOVERS[which]
        try:
            if op == 'exists':
                await c.exists(name)
            elif op == 'upload':
                await c.upload(name, data)
            elif op == 'upload_stream':
                await c.upload_stream(name, io.BytesIO(data), len(data), 40)
            elif op == 'download':
                await c.download(name)
            elif op == 'download_stream':
                await c.download_stream(name, io.BytesIO(), 16)
            elif op == 'list':
                [x async for x in c.list_files('data/aa/')]
            elif op == 'delete':
                await c.delete(name)
            out['readings'] = Clock.readings
        finally:
            Clock.rollover = None
            await c.close()

    try:
        W.run(go)
    except Exception as e:
        out['exc'] = repr(e)[:200]
    finally:
        Clock.rollover = None
    fake = out.get('fake')
    if fake is None:
        return 0, 0, [(dict(sig0, what='harness'), dict(detail0, err=out.get('exc')))]
    vs = verify_all(fake, creds, out['host'], sig0, detail0)
    return len(fake.requests), out.get('readings', 0), vs


OPS = ('exists', 'upload', 'upload_stream', 'download', 'download_stream', 'list', 'delete')
OP_FAULTS = ('500', '503', '429', 'connect', 'protocol', 'drop-response', 'redirect-307-same', 'redirect-301-same',
             'redirect-307-other', 'redirect-302-other', 'redirect-308-same')


def op_fault_case(args):
    """One fault (incl. 3xx answers a client library might follow by itself) at the j-th request of one
    adapter operation; every request that then reaches the wire - retries and any request a redirect
    produces - must verify."""
    op, kind_fault, j, creds = args
    Clock.now = CLOCKS['leap']
    sig0 = {'part': 'op-fault', 'op': op, 'fault': kind_fault.split('-')[0] if kind_fault.startswith('redirect') else kind_fault}
    detail0 = {'op': op, 'fault': kind_fault, 'j': j}
    out = {}
    name = 'data/aa/we ird+obj'

    async def go():
        c, fake, h = make_client('s3c', 'https', 'minio.test:9000', creds)
        out['fake'], out['host'] = fake, h
        data = bytes(range(97))
        fake.o[name] = data
        fake.o['data/aa/second'] = b'2'
        fake.o['data/aa/third'] = b'3'
        out['start'] = len(fake.requests)
        state = {'n': 0}

        def fault(idx, rec):
            host = rec.host.decode() if isinstance(rec.host, bytes) else rec.host
            if host != h:
                return None
            state['n'] += 1
            if state['n'] != j + 1:
                return None
            path, _, q = rec.target.decode('ascii').partition('?')
            if kind_fault in ('500', '503', '429'):
                return FS.Fault('status', code=int(kind_fault))
            if kind_fault == 'connect':
                return FS.Fault('connect-error')
            if kind_fault == 'protocol':
                return FS.Fault('protocol-error')
            if kind_fault == 'drop-response':
                return FS.Fault('drop-response-after', k=0)
            _, code, where = kind_fault.split('-')
            if where == 'same':
                loc = path + '/' + ('?' + q if q else '')
            else:
                loc = 'https://other-endpoint.test:9443' + path + ('?' + q if q else '')
            return FS.Fault('status', code=int(code), headers={'location': loc}, body=b'<Error><Code>TemporaryRedirect</Code></Error>')

        fake.fault_fn = fault
        fake.reset_budget(60)
        if op == 'exists':
            await c.exists(name)
        elif op == 'upload':
            await c.upload(name, data)
        elif op == 'upload_stream':
            await c.upload_stream(name, io.BytesIO(data), len(data), 40)
        elif op == 'download':
            await c.download(name)
        elif op == 'download_stream':
            await c.download_stream(name, io.BytesIO(), 16)
        elif op == 'list':
            [x async for x in c.list_files('data/aa/')]
        elif op == 'delete':
            await c.delete(name)
        await c.close()

    try:
        W.run(go)
    except Exception as e:
        out['exc'] = repr(e)[:200]     # an error is allowed here (C12 bounds it); an ill-signed request is not
    fake = out.get('fake')
    if fake is None:
        return 0, [(dict(sig0, what='harness'), dict(detail0, err=out.get('exc')))]
    vs = verify_all(fake, creds, out['host'], sig0, detail0, start=out.get('start', 0))
    return len(fake.requests), vs


def replay(case):
    if case.get('rollover'):
        creds = ('AKIDEXAMPLE', 'wJalrXUtnFEMI/K7MDENG+bPxRfiCYEXAMPLEKEY', 'us-east-1')
        n, r, vs = rollover_case((case['op'], case['boundary'], case['k'], creds))
        return {'violations': [v[0] for v in vs][:5]}
    if 'op' in case:
        creds = ('AKIDEXAMPLE', 'wJalrXUtnFEMI/K7MDENG+bPxRfiCYEXAMPLEKEY', 'us-east-1')
        n, vs = op_fault_case((case['op'], case['fault'], case['j'], creds))
        return {'violations': [v[0] for v in vs][:5]}
    return _replay_other(case)


def _replay_other(case):
    if 'class' in case:
        creds = ('AKIDEXAMPLE', 'wJalrXUtnFEMI/K7MDENG+bPxRfiCYEXAMPLEKEY', 'us-east-1')
        n, vs = name_case((case['class'], case['kind'], case['scheme'], case['host'], creds, case['clock']))
    else:
        creds = ('AKIDEXAMPLE', 'wJalrXUtnFEMI/K7MDENG+bPxRfiCYEXAMPLEKEY', 'us-east-1')
        n, vs = fault_case((case['fault'], case['k'], case['chunks'], creds))
    return {'violations': [v[0] for v in vs][:5]}


def main():
    t = common.tier()
    chk = common.Check(PID, 'exploration')
    chk.unexercised_whats = {'operation-failed', 'harness'}   # a failing command is not what C16 is about: reported as 'could not exercise'
    credsets = [('AKIDEXAMPLE', 'wJalrXUtnFEMI/K7MDENG+bPxRfiCYEXAMPLEKEY', 'us-east-1'),
                ('id-with-dash_and.dot', 's3cr3t/with+chars=', 'eu-central-1')]
    cases = []
    for cls in SEGMENTS:
        for kind, scheme, host in (('s3c', 'https', 'minio.test:9000'), ('s3c', 'http', 'localhost'), ('s3', 'https', None)):
            for ci, creds in enumerate(credsets):
                for clock in CLOCKS:
                    cases.append((cls, kind, scheme, host, creds, clock))
    nreq = 0
    for n, vs in common.pmap(name_case, common.shuffled(cases, 'c16'), ordered=False, chunksize=4):
        nreq += n
        for sig, d in vs:
            chk.violation(sig, d)
    fcases = []
    for nch in (1, 3):
        for k in range(0, nch + 1):
            fcases.append(('reset-mid-body', k, nch, credsets[0]))
        for kf in ('500', '503', 'connect'):
            fcases.append((kf, 0, nch, credsets[0]))
    for n, vs in common.pmap(fault_case, fcases, ordered=False):
        nreq += n
        for sig, d in vs:
            chk.violation(sig, d)
    ocases = [(op, kf, j, credsets[0]) for op in OPS for kf in OP_FAULTS for j in ((0, 1) if op == 'list' or t != 'quick' else (0,))]
    for n, vs in common.pmap(op_fault_case, ocases, ordered=False):
        nreq += n
        for sig, d in vs:
            chk.violation(sig, d)
    fcases = fcases + ocases
    # the date rolls over between two consecutive clock readings: k up to the largest number of readings seen + 1
    rcases = [(op, which, k, credsets[0]) for op in OPS for which in ROLLOVERS for k in range(1, 9)]
    max_readings = 0
    for n, r, vs in common.pmap(rollover_case, rcases, ordered=False):
        nreq += n
        max_readings = max(max_readings, r)
        for sig, d in vs:
            chk.violation(sig, d)
    if max_readings >= 8:
        chk.harness_error(f'an operation read the clock {max_readings} times: extend the range of k')
    fcases = fcases + rcases
    chk.coverage['clock_readings_per_operation_max'] = max_readings
    chk.sample({'op': 'list', 'fault': 'redirect-307-same', 'j': 1})
    chk.sample({'class': 'space', 'name': 'dir/we ird/leaf', 'kind': 's3c', 'scheme': 'https', 'host': 'minio.test:9000', 'clock': 'midnight'})
    chk.sample({'fault': 'reset-mid-body', 'after_request_chunks': 1, 'chunks': 3})
    chk.coverage.update({
        'evaluations': nreq, 'distinct_nontrivial': len(cases) + len(fcases),
        'rule': 'requests captured on the wire and re-verified; distinct = (character class, adapter, scheme/host, credentials, '
                'clock) configurations + fault positions; each configuration issues ~70 requests (HEAD/PUT/GET/DELETE/list pages)',
        'configurations': len(cases), 'fault_cases': len(fcases), 'character_classes': sorted(SEGMENTS),
    })
    chk.assumptions += ['the verifier implements the published SigV4 algorithm (S3 flavour: single URI encoding, payload hash header)',
                        '"+" in a received query is tried as space and literally; a request fails only if neither verifies']
    return chk.finish()


if __name__ == '__main__':
    sys.exit(common.run_main(main))
