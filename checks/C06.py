"""C06 - access rights follow key relationships.

(1) Key graphs: every chain of <= k add-key calls (independent / shared / clone x
KDF settings); unlock matrix over all (password, key file) pairs; per graph every
holder snapshots and every holder's view of every other holder's snapshot is
checked. (2) E2: BFS over histories that also contain commands issued "as the
wrong user"; visibility / refusal oracles in every state."""
import itertools
import sys
from pathlib import Path

sys.path.insert(0, str(Path(__file__).resolve().parent.parent))
from mc import common

R = common.bootstrap()
from mc import hist as H, world as W  # noqa: E402
from replicat.utils import FileListColumn as FC, SnapshotListColumn as SC  # noqa: E402
from replicat import exceptions as RX  # noqa: E402

PID = 'C06'
KDFS = [{'n': 2, 'r': 1}, {'n': 4, 'r': 1}, {'n': 2, 'r': 8}, {'n': 4, 'r': 8}, {'name': 'blake2b'}]
LONG = b'L' * 70  # longer than a BLAKE2b key: a KDF that silently truncates would make prefixes collide
TYPES = ['independent', 'shared', 'clone']


# ---------------------------------------------------------------- views
def view(state, uname, fsdirs):
    """What `uname` can see/do, through the real commands (fresh process each)."""
    store = W.Store(state.o)
    user = H.user_obj(state, uname)
    out = {}

    async def go():
        repo = await W.a_open(store, user, N=2)
        with W.captured() as (o, e):
            await repo.list_snapshots(header=False, columns=[SC.NAME, SC.FILE_COUNT, SC.TIMESTAMP, SC.SIZE, SC.NOTE])
        out['ls'] = [tuple(c.strip() for c in line.split('\t')) for line in o.getvalue().splitlines() if line.strip()]
        with W.captured() as (o, e):
            await repo.list_snapshots(header=False, columns=[SC.NAME])     # a narrower column selection must not widen the view
        out['ls_names'] = {line.strip() for line in o.getvalue().splitlines() if line.strip()}
        with W.captured() as (o, e):
            await repo.list_files(header=False, columns=[FC.SNAPSHOT_NAME, FC.PATH])
        out['lf'] = [tuple(c.strip() for c in line.split('\t')) for line in o.getvalue().splitlines() if line.strip()]
        await repo.close()

    W.run(go)
    res, exc, tree, target, _ = H.restore_as(state, uname, fsdirs)
    out['restore_exc'] = exc
    out['restored'] = {p[len(str(target)):]: d for p, d in tree.items()}
    out['mutations'] = len(store.mutations)
    return out


def view_problems(state, fsdirs):
    ps = []
    for uname in state.users:
        ps += user_view_problems(state, uname, view(state, uname, fsdirs), fsdirs)
    return ps


def user_view_problems(state, uname, v, fsdirs):
    ps = []
    u = state.users[uname]
    if True:
        fam = u['family']
        fam_snaps = {e['name']: e for e in state.ledger if state.users[e['owner']]['family'] == fam}
        own = {e['name']: e for e in state.ledger if e['owner'] == uname}
        seen = {row[0]: row for row in v['ls']}
        if set(seen) != set(fam_snaps):
            ps.append({'what': 'listing-visibility', 'user': u['kind'], 'extra': len(set(seen) - set(fam_snaps)),
                       'missing': len(set(fam_snaps) - set(seen))})
        if 'ls_names' in v and v['ls_names'] != set(fam_snaps):
            ps.append({'what': 'listing-visibility', 'user': u['kind'], 'columns': 'name only',
                       'extra': len(v['ls_names'] - set(fam_snaps)), 'missing': len(set(fam_snaps) - v['ls_names'])})
        for name, row in seen.items():
            details_hidden = all(c == '--' for c in row[1:])
            if name in own and details_hidden:
                ps.append({'what': 'own-details-hidden', 'user': u['kind']})
            if name not in own and not details_hidden:
                ps.append({'what': 'foreign-details-visible', 'user': u['kind'], 'row': row})
        lf_names = {r[0] for r in v['lf']}
        if not lf_names <= set(own):
            ps.append({'what': 'foreign-file-list-visible', 'user': u['kind']})
        if own and lf_names != set(own):
            ps.append({'what': 'own-file-list-incomplete', 'user': u['kind']})
        if v['restore_exc'] is not None:
            ps.append({'what': 'restore-error', 'user': u['kind'], 'err': repr(v['restore_exc'])[:200]})
        else:
            # exactly the newest version of each of the user's own paths, nothing of anybody else
            want = {}
            for e in sorted(own.values(), key=lambda e: e['seq']):
                for p, d in H.expected_files(e, fsdirs).items():
                    want[p] = d
            if v['restored'] != want:
                ps.append({'what': 'restore-scope', 'user': u['kind'], 'got': sorted(v['restored']), 'want': sorted(want)})
        if v['mutations']:
            ps.append({'what': 'read-only-command-mutated-backend', 'user': u['kind']})
    return ps


def reunlock_problems(state, fsdirs):
    """ONE Repository object used by two users in turn: unlocked as u1, who looks at everything it may see, then
    unlocked again (no close) as u2. What u2 sees and can do through that object must follow u2's key alone."""
    import shutil
    ps = []
    names = list(state.users)
    for u1 in names:
        for u2 in names:
            if u1 == u2:
                continue
            store = W.Store(state.o)
            sc = H.worker_scratch()
            target = sc.sub()
            v = {}
            victim = [e for e in state.ledger if e['owner'] == u1]

            async def go():
                usr1, usr2 = H.user_obj(state, u1), H.user_obj(state, u2)
                repo = await W.a_open(store, usr1, N=2)
                with W.captured():
                    await repo.list_snapshots()
                    await repo.list_files()
                    t1 = sc.sub()
                    try:
                        await repo.restore(path=t1)
                    except Exception:
                        pass
                    shutil.rmtree(t1, ignore_errors=True)
                    if usr2 is None or usr2.key is None:
                        await repo.unlock()
                    else:
                        await repo.unlock(password=usr2.password, key=usr2.key)
                with W.captured() as (o, e):
                    await repo.list_snapshots(header=False, columns=[SC.NAME, SC.FILE_COUNT, SC.TIMESTAMP, SC.SIZE, SC.NOTE])
                v['ls'] = [tuple(c.strip() for c in line.split('\t')) for line in o.getvalue().splitlines() if line.strip()]
                with W.captured() as (o, e):
                    await repo.list_snapshots(header=False, columns=[SC.NAME])
                v['ls_names'] = {line.strip() for line in o.getvalue().splitlines() if line.strip()}
                with W.captured() as (o, e):
                    await repo.list_files(header=False, columns=[FC.SNAPSHOT_NAME, FC.PATH])
                v['lf'] = [tuple(c.strip() for c in line.split('\t')) for line in o.getvalue().splitlines() if line.strip()]
                m0 = len(store.mutations)
                v['restore_exc'] = None
                with W.captured():
                    try:
                        await repo.restore(path=target)
                    except Exception as ex:
                        v['restore_exc'] = ex
                v['mutations'] = len(store.mutations) - m0
                v['foreign_delete'] = None
                if victim:
                    with W.captured():
                        try:
                            await repo.delete_snapshots([victim[0]['name']], confirm=False)
                            v['foreign_delete'] = 'accepted'
                        except RX.ReplicatError:
                            v['foreign_delete'] = 'refused'
                        except Exception as ex:
                            v['foreign_delete'] = repr(ex)[:100]
                with W.captured():
                    await repo.close()

            try:
                W.run(go)
            except Exception as ex:
                ps.append({'what': 'reunlock-run-failed', 'user': state.users[u2]['kind'], 'first': state.users[u1]['kind'],
                           'err': repr(ex)[:200]})
                shutil.rmtree(target, ignore_errors=True)
                continue
            v['restored'] = {p_[len(str(target)):]: d[0] for p_, d in W.read_tree(target).items()}
            shutil.rmtree(target, ignore_errors=True)
            for p_ in user_view_problems(state, u2, v, fsdirs):
                ps.append(dict(p_, after_unlocked_as=state.users[u1]['kind'], what=p_['what']))
            if victim and v['foreign_delete'] != 'refused':
                ps.append({'what': 'foreign-delete-not-refused', 'user': state.users[u2]['kind'],
                           'victim': state.users[u1]['kind'], 'after_unlocked_as': state.users[u1]['kind'],
                           'exc': v['foreign_delete']})
            if store.o != state.o:
                ps.append({'what': 'foreign-delete-changed-objects', 'user': state.users[u2]['kind'],
                           'after_unlocked_as': state.users[u1]['kind']})
    return ps


def foreign_delete_problems(state, fsdirs):
    """Every user tries to delete every other user's snapshot: must raise before any backend mutation."""
    ps = []
    for uname, u in state.users.items():
        for e in state.ledger:
            if e['owner'] == uname:
                continue
            res = H.apply(state, ('delname', uname, (e['name'],)), fsdirs)
            if res.exc is None or not isinstance(res.exc, RX.ReplicatError):
                ps.append({'what': 'foreign-delete-not-refused', 'user': u['kind'], 'victim': state.users[e['owner']]['kind'],
                           'exc': repr(res.exc)[:200]})
            if res.mutations or any(k == 'delete' for k, _ in res.calls):
                ps.append({'what': 'foreign-delete-touched-backend', 'user': u['kind'],
                           'victim': state.users[e['owner']]['kind']})
            if res.state.o != state.o:
                ps.append({'what': 'foreign-delete-changed-objects', 'user': u['kind']})
            # mixed: own + foreign in one call must not delete anything either
            mine = [x for x in state.ledger if x['owner'] == uname]
            if mine:
                res = H.apply(state, ('delname', uname, (mine[0]['name'], e['name'])), fsdirs)
                if res.exc is None or res.state.o != state.o:
                    ps.append({'what': 'mixed-delete-partially-executed', 'user': u['kind'],
                               'victim': state.users[e['owner']]['kind']})
    return ps


MENU = ['F1', 'F2']
REUNLOCK_DEPTH = 2     # states within this many commands also get the one-object/two-users pass (all ordered pairs)


def expand(state):
    fsdirs = H.materialize()
    out = []
    for ev in H.standard_events(state, MENU, max_del=1):
        res = H.apply(state, ev, fsdirs)
        new = res.state
        vs = []
        sig0 = {'event': ev[0], 'actor_kind': state.users[ev[1]]['kind']}
        if res.exc is not None:
            vs.append((dict(sig0, what='command-failed', exc=type(res.exc).__name__), {'hist': new.hist, 'err': repr(res.exc)[:300]}))
        # the actor's delete/clean removes nothing another user still references
        for p in H.temporal_reference_check(state, new, res.mutations)[:1]:
            vs.append((dict(sig0, what=p['what']), {'hist': new.hist, 'problem': p}))
        # deduplication across shared keys / no aliasing across independent keys
        if ev[0] == 'snap':
            ups = [n for k, n in res.calls if k == 'upload_stream']
            if any(n in state.o for n in ups):
                vs.append((dict(sig0, what='shared-data-not-reused'), {'hist': new.hist}))
            fam = state.users[ev[1]]['family']
            rd = H.reader_for(state, ev[1])
            if any(not rd.owns_chunk_name(n) for n in ups):
                vs.append((dict(sig0, what='upload-under-foreign-name'), {'hist': new.hist}))
        k = H.canon(new)
        extra = reunlock_problems(new, fsdirs) if len(new.hist) <= REUNLOCK_DEPTH else []
        for p in view_problems(new, fsdirs) + foreign_delete_problems(new, fsdirs) + extra:
            sig = dict(sig0, what=p['what'], viewer=p.get('user'))
            if 'after_unlocked_as' in p:
                sig['same_object_first_unlocked_as'] = p['after_unlocked_as']
            vs.append((sig, {'hist': new.hist, 'problem': p}))
        out.append((ev, new, k, vs))
    return out


# ---------------------------------------------------------------- key graphs
def graphs(depth, kdfs2):
    """Chains of add-key operations: op = (parent index, type, kdf index)."""
    out = []
    first = [(0, t, k) for t in TYPES for k in range(len(KDFS))]
    for op1 in first:
        out.append([op1])
        if depth >= 2:
            for parent in (0, 1):
                for t in TYPES:
                    for k in kdfs2:
                        out.append([op1, (parent, t, k)])
    if depth >= 3:
        base = [g for g in out if len(g) == 2 and g[0][2] == 0 and g[1][2] == kdfs2[0]]
        for g in base:
            for parent in (0, 1, 2):
                for t in TYPES:
                    out.append(g + [(parent, t, kdfs2[-1])])
    return out


def run_graph(ops):
    fsdirs = H.materialize()
    st = W.Store()
    W.set_random(f'graph:{ops!r}')
    W.set_clock()
    settings = W.default_settings(True, chunking={'min_length': 8, 'max_length': 8}, hashing={'name': 'blake2b', 'length': 20},
                                  kdf=KDFS[1])
    key0 = W.run(W.a_init, st, settings, b'pw-0')
    keys = [{'password': b'pw-0', 'key': key0, 'family': 0, 'type': 'owner'}]
    fam_next = 1
    for i, (parent, t, k) in enumerate(ops, 1):
        p = keys[parent]
        if p is None:
            keys.append(None)
            continue
        pu = W.User('p', p['password'], p['key'])
        newpw = p['password'] if t == 'clone' else (f'pw-{i}'.encode() + (LONG if (i + k) % 2 else b''))
        kset = {'encryption': {'kdf': dict(KDFS[k])}}
        try:
            key = W.run(W.a_add_key, st, pu, newpw, t in ('shared', 'clone'), kset)
        except ValueError:
            # the KDF refused the key material (BLAKE2b keys are limited to 64 bytes): no key was produced
            if KDFS[k].get('name') == 'blake2b' and len(newpw) > 64:
                keys.append(None)
                continue
            raise
        if t == 'independent':
            fam = fam_next
            fam_next += 1
        else:
            fam = p['family']
        keys.append({'password': newpw, 'key': key, 'family': fam, 'type': t})
    keys = [k for k in keys if k is not None]
    vs = []
    sigb = {'part': 'keygraph'}
    # unlock matrix
    n_unlock = 0
    pws = {b'', b'pw-x'}
    for k in keys:
        pw = k['password']
        pws |= {pw, pw + b'x', pw[:-1], pw[:64], pw[:64] + b'y' * max(0, len(pw) - 64), pw.upper()}
    pws = sorted(pws)
    for pw in pws:
        for j, kj in enumerate(keys):
            n_unlock += 1

            async def go():
                repo = W.make_repo(st)
                with W.captured():
                    await repo.unlock(password=pw, key=kj['key'])
                    await repo.close()

            try:
                W.run(go)
                ok = True
            except Exception as e:
                ok = False
            want = (pw == kj['password'])
            if ok != want:
                vs.append((dict(sigb, what='unlock-matrix', unlocked=ok, key_type=kj['type']),
                           {'ops': ops, 'password': pw, 'key_index': j}))
    # per holder: snapshot, then everybody's view of everybody
    users = {f'K{i}': {'password': k['password'], 'key': k['key'], 'family': f'fam{k["family"]}',
                       'kind': k['type']} for i, k in enumerate(keys)}
    state = H.State(st.o, users)
    for i, uname in enumerate(sorted(users)):
        res = H.apply(state, ('snap', uname, 'F1' if i % 2 == 0 else 'F2'), fsdirs)
        if res.exc is not None:
            vs.append((dict(sigb, what='command-failed', key_type=users[uname]['kind']), {'ops': ops, 'err': repr(res.exc)[:200]}))
        else:
            ups = [n for k, n in res.calls if k == 'upload_stream']
            if any(n in state.o for n in ups):
                vs.append((dict(sigb, what='shared-data-not-reused'), {'ops': ops}))
        state = res.state
    for p in view_problems(state, fsdirs) + foreign_delete_problems(state, fsdirs) + \
            [{'what': q['what']} for q in H.invariant_restorable(state, fsdirs)]:
        vs.append((dict(sigb, what=p['what'], viewer=p.get('user')), {'ops': ops, 'problem': p}))
    # every holder's clean removes nothing anybody references
    for uname in sorted(users):
        res = H.apply(state, ('clean', uname), fsdirs)
        if res.exc is not None or res.state.o != state.o:
            vs.append((dict(sigb, what='clean-changed-consistent-repository', viewer=users[uname]['kind']), {'ops': ops}))
    return len(keys), n_unlock, vs, ops


# ---------------------------------------------------------------- the same through the command line
def cli_case(_):
    """init / add-key --shared / --clone / independent / snapshot / ls / delete / restore through the real
    replicat.__main__.main() and the real command handler, local backend, one process image per command."""
    import contextlib
    import importlib
    import io
    import os
    import shutil
    from mc import dsched
    import datetime as _dt
    dsched.uninstall(R)          # this worker process runs the commands on real threads and a real event loop
    R.datetime = _dt.datetime
    W.set_random('cli', real=True)
    fsdirs = H.materialize()
    sc = H.worker_scratch()
    root = sc.sub()
    repo = root / 'repo'
    repo.mkdir()
    vs = []
    sig0 = {'part': 'cli'}

    def bad(what, **kw):
        vs.append((dict(sig0, what=what), dict(kw)))

    def run(*argv):
        import replicat.utils as _ru
        for m in ('replicat.__main__', 'replicat.utils.cli', 'replicat.utils.config'):
            sys.modules.pop(m, None)
        for attr in ('cli', 'config'):
            if hasattr(_ru, attr):
                delattr(_ru, attr)
        old_argv, old_env = sys.argv, dict(os.environ)
        for k in list(os.environ):
            if k.startswith(('REPLICAT_', 'LOCAL_')):
                del os.environ[k]
        sys.argv = ['replicat'] + [str(a) for a in argv] + ['--ignore-config', '-q', '--no-cache', '-r', str(repo)]
        out, err = io.StringIO(), io.StringIO()
        rc = 0
        try:
            with contextlib.redirect_stdout(out), contextlib.redirect_stderr(err):
                import logging
                rl = logging.getLogger()
                handlers = list(rl.handlers)
                try:
                    importlib.import_module('replicat.__main__').main()
                except SystemExit as e:
                    rc = e.code if isinstance(e.code, int) else 1
                except Exception as e:
                    rc = ('exc', type(e).__name__, str(e)[:120])
                finally:
                    for h_ in list(rl.handlers):
                        if h_ not in handlers:
                            rl.removeHandler(h_)
                    logging.getLogger('backoff').handlers.clear()
        finally:
            sys.argv = old_argv
            os.environ.clear()
            os.environ.update(old_env)
        return rc, out.getvalue(), err.getvalue()

    def chunks():
        return {str(p.relative_to(repo)) for p in (repo / 'data').rglob('*') if p.is_file()} if (repo / 'data').exists() else set()

    kdf = ['--encryption.kdf.n', '4', '--encryption.kdf.r', '1']
    rc, o, e = run('init', '-p', 'pw-A', '-o', root / 'kA', '--chunking.min-length', '8', '--chunking.max-length', '8',
                   '--hashing.length', '20', *kdf)
    if rc != 0:
        bad('cli-init-failed', rc=repr(rc), err=e[-200:])
        return 1, vs
    steps = [
        ('shared', ['add-key', '-p', 'pw-A', '-K', root / 'kA', '--shared', '-n', 'pw-B', '-o', root / 'kB', *kdf]),
        ('clone', ['add-key', '-p', 'pw-A', '-K', root / 'kA', '--clone', '-o', root / 'kA2', *kdf]),
        ('independent', ['add-key', '-n', 'pw-C', '-o', root / 'kC', *kdf]),
    ]
    for label, argv in steps:
        rc, o, e = run(*argv)
        if rc != 0:
            bad('cli-add-key-failed', kind=label, rc=repr(rc), err=e[-200:])
    holders = {'A': ('pw-A', 'kA', 'fam1'), 'B': ('pw-B', 'kB', 'fam1'), 'A2': ('pw-A', 'kA2', 'fam1'), 'C': ('pw-C', 'kC', 'fam2')}
    names = {}
    n = 4
    for who in ('A', 'B', 'A2', 'C'):
        pw, kf, fam = holders[who]
        before = chunks()
        rc, o, e = run('snapshot', fsdirs['F2'], '-p', pw, '-K', root / kf)
        n += 1
        if rc != 0:
            bad('cli-snapshot-failed', who=who, rc=repr(rc), err=e[-200:])
            continue
        new = chunks() - before
        if who in ('B', 'A2') and new:
            bad('shared-or-cloned-key-does-not-reuse-chunks', who=who, new_chunk_objects=len(new))
        if who == 'C' and not new:
            bad('independent-key-aliases-chunks')
        rc, o, e = run('ls', '-p', pw, '-K', root / kf, '--no-header', '--columns', 'name,file_count')
        rows = [tuple(c.strip() for c in line.split('\t')) for line in o.splitlines() if line.strip()]
        names[who] = rows
    # visibility: family members see each other's names without details; the independent holder sees only its own
    if all(w in names for w in holders):
        fam1 = {r[0] for r in names['A2']}
        if len(fam1) != 3 or {r[0] for r in names['A']} - fam1:
            bad('cli-family-listing', rows=names['A2'])
        if sum(1 for r in names['A2'] if r[1] != '--') != 1:
            bad('cli-foreign-details-visible-or-own-hidden', rows=names['A2'])
        if len(names['C']) != 1:
            bad('cli-independent-holder-sees-others', rows=names['C'])
        # B tries to delete A's snapshot
        a_name = [r[0] for r in names['A'] if r[1] != '--']
        if a_name:
            before = {str(p.relative_to(repo)) for p in repo.rglob('*') if p.is_file()}
            rc, o, e = run('delete', a_name[0], '-y', '-p', 'pw-B', '-K', root / 'kB')
            n += 1
            after = {str(p.relative_to(repo)) for p in repo.rglob('*') if p.is_file()}
            if rc == 0 or before != after:
                bad('cli-foreign-delete-not-refused', rc=repr(rc), removed=len(before - after))
        # wrong password / wrong key on the command line
        for pw, kf in (('pw-B', 'kA'), ('pw-A', 'kB'), ('pw-x', 'kC')):
            rc, o, e = run('ls', '-p', pw, '-K', root / kf)
            n += 1
            if rc == 0:
                bad('cli-wrong-credentials-accepted', password=pw, key=kf)
        # restore as A
        rc, o, e = run('restore', root / 'out', '-p', 'pw-A', '-K', root / 'kA')
        n += 1
        want = {W.restore_path(root / 'out', p): d for p, d in H.expected_files({'fsid': 'F2'}, fsdirs).items()}
        got = {p: v[0] for p, v in W.read_tree(root / 'out').items()}
        if rc != 0 or got != want:
            bad('cli-restore-wrong', rc=repr(rc), got=sorted(got))
    shutil.rmtree(root, ignore_errors=True)
    return n, vs


def replay(case):
    fsdirs = H.materialize()
    if not case or ('ops' not in case and 'hist' not in case):
        n, vs = cli_case(0)
        return {'violations': [v[0] for v in vs]}
    if 'ops' in case:
        _, _, vs, _ = run_graph([tuple(o) for o in case['ops']])
        return {'violations': [v[0] for v in vs]}
    hist = [tuple(tuple(x) if isinstance(x, list) else x for x in ev) for ev in case['hist']]
    s = H.make_initial('enc')
    for ev in hist:
        s = H.apply(s, ev, fsdirs).state
    ps = view_problems(s, fsdirs) + foreign_delete_problems(s, fsdirs)
    if len(hist) <= REUNLOCK_DEPTH:
        ps += reunlock_problems(s, fsdirs)
    return {'violations': [p['what'] for p in ps], 'problems': ps}


def main():
    t = common.tier()
    chk = common.Check(PID, 'model_checking')
    # an object that refuses to be unlocked a second time is a design choice, not an access-rights violation
    chk.unexercised_whats = {'reunlock-run-failed'}
    H.materialize()
    try:
        gs = graphs(2 if t == 'quick' else 3, [0, 3, 4] if t == 'quick' else [0, 1, 2, 3, 4])
        gs = common.shuffled(gs, 'graphs')
        nkeys = nunlock = 0
        for nk, nu, vs, ops in common.pmap(run_graph, gs, ordered=False, chunksize=2):
            nkeys += nk
            nunlock += nu
            for sig, detail in vs:
                chk.violation(sig, detail)
        chk.sample({'key_graph_ops(parent,type,kdf)': gs[0]})
        (ncli, vcli), = list(common.pmap(cli_case, [0], procs=1, force=True))
        for sig, detail in vcli:
            chk.violation(sig, detail)
        chk.sample({'cli': 'init, add-key --shared/--clone/independent, snapshot x4, ls x4, foreign delete, wrong credentials, restore'})
        s0 = list(common.pmap(H.make_initial, ['enc'], procs=1, force=True))[0]
        depth = 3 if t == 'quick' else 4
        stats, viol = H.bfs([s0], expand, depth, label='c06')
        for smp in stats.pop('samples')[:2]:
            chk.sample({'history': smp})
        for sig, detail in viol:
            chk.violation(sig, detail)
        chk.coverage.update({
            'states': stats['states'] + len(gs), 'transitions': stats['transitions'] + nkeys,
            'traces_validated_against_impl': stats['transitions'] + len(gs),
            'evaluations': stats['transitions'] + nunlock, 'distinct_nontrivial': stats['states'] + len(gs),
            'rule': 'all add-key chains up to the depth bound x KDF settings with the full unlock matrix and all-pairs views; '
                    'BFS over histories with every user also acting against every other user\'s snapshots',
            'key_graphs': len(gs), 'keys_generated': nkeys, 'unlock_attempts': nunlock, 'bfs': stats, 'cli_commands': ncli,
        })
        chk.assumptions += ['a clone is modelled as a shared key (same password, new salt): that is what the code and README do',
                            'scrypt n in {2,4}, r in {1,8}']
    finally:
        H.cleanup_fixed_root()
    return chk.finish()


if __name__ == '__main__':
    sys.exit(common.run_main(main))
