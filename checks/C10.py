"""C10 - the chunker is a lossless, bounded, deterministic function of the stream.

E3: complete products of small menus.
 (cpp)     the C++ next_cut rebuilt from the working tree, through ctypes: every valid (min,max) <= 13, keys,
           buffers over a 3-word alphabet (+0..3 trailing bytes), final in {0,1}; agreement with the scalar
           reference; independence from guard bytes placed after the logical end; the same cases through an
           AddressSanitizer build with exact-size heap buffers.
 (adapter) the real Python generator: every segmentation with <= k cut positions (+ an empty piece at every
           position, + all one-byte pieces): lossless, non-empty, bounds/alignment outside the tail zone,
           determinism (repeat, after unrelated/abandoned calls), independence from the splitting."""
import itertools
import os
import subprocess
import sys
from pathlib import Path

sys.path.insert(0, str(Path(__file__).resolve().parent.parent))
from mc import common

R = common.bootstrap()
from mc import native  # noqa: E402
from mc.ref.chunker import RefChunker, valid_pair  # noqa: E402
import replicat.utils.adapters as A  # noqa: E402

PID = 'C10'
KEYS = [b'\xff' * 16, bytes(range(1, 17)), b'\x01' + b'\x00' * 7 + b'\x80' * 8]
WORDS = [b'\x00\x00\x00\x00', b'\x01\x02\x03\x04', b'\xff\xfe\xfd\xfc']
TRAIL = b'\xa5\x5a\xc3'


def pairs(limit):
    return [(mn, mx) for mx in range(1, limit + 1) for mn in range(1, mx + 1) if valid_pair(mn, mx)]


def buffers(max_words):
    for w in range(max_words + 1):
        for combo in itertools.product(range(len(WORDS)), repeat=w):
            body = b''.join(WORDS[i] for i in combo)
            for t in range(4):
                yield body + TRAIL[:t]


# ---------------------------------------------------------------- (cpp)
def cpp_case(args):
    mn, mx, ki, max_words = args
    key = KEYS[ki]
    lib = native.load(common.REPO)
    ch = native._gclmulchunker(mn, mx, key)
    ref = RefChunker(mn, mx, key)
    import ctypes
    vs = []
    n = nontrivial = 0
    lines = []
    meta = []
    for buf in buffers(max_words):
        for final in (0, 1):
            n += 1
            size = len(buf)
            outs = []
            for guard in (b'\x00' * 8, b'\xff' * 8, b'\x55' * 8):
                mem = buf + guard
                outs.append(int(lib.gcl_next_cut(ch._h, ctypes.cast(ctypes.c_char_p(mem), ctypes.c_void_p), size, final)))
            sig0 = {'part': 'cpp', 'final': bool(final), 'max_mod4_nonzero': mx % 4 != 0,
                    'reads_past_end': ref.reads_past(size, bool(final))}
            if len(set(outs)) != 1:
                vs.append((dict(sig0, what='depends-on-memory-after-buffer'),
                           {'min': mn, 'max': mx, 'key': key, 'buf': buf, 'final': final, 'cuts_by_guard': outs}))
            if not ref.reads_past(size, bool(final)):
                want = ref.next_cut(buf, bool(final))
                if size >= mx:
                    nontrivial += 1
                if outs[0] != want:
                    vs.append((dict(sig0, what='differs-from-reference'),
                               {'min': mn, 'max': mx, 'key': key, 'buf': buf, 'final': final, 'got': outs[0], 'want': want}))
            # contract of a cut
            c = outs[0]
            if c > size or (final and size and c == 0):
                vs.append((dict(sig0, what='cut-outside-buffer'), {'min': mn, 'max': mx, 'buf': buf, 'final': final, 'got': c}))
            lines.append(f'{mn} {mx} {key.hex()} {final} {buf.hex() or "-"}')
            meta.append((buf, final, sig0))
    # AddressSanitizer pass over the same cases
    drv = native.build_asan_driver(common.REPO)
    env = dict(os.environ, ASAN_OPTIONS='halt_on_error=0:detect_leaks=0:print_summary=0')
    p = subprocess.run([str(drv)], input='\n'.join(lines) + '\n', capture_output=True, text=True, env=env)
    cur = None
    flagged = set()
    for ln in p.stderr.splitlines():
        if ln.startswith('CASE '):
            cur = int(ln.split()[1])
        elif 'ERROR: AddressSanitizer' in ln and cur is not None:
            flagged.add(cur)
    if p.returncode not in (0, 1) and not flagged:
        vs.append(({'part': 'cpp', 'what': 'asan-driver-crashed'}, {'rc': p.returncode, 'stderr': p.stderr[-300:]}))
    for i in sorted(flagged):
        buf, final, sig0 = meta[i]
        vs.append((dict(sig0, what='asan-read-past-buffer'), {'min': mn, 'max': mx, 'key': key, 'buf': buf, 'final': final}))
    return n, nontrivial, len(flagged), vs


# ---------------------------------------------------------------- (adapter)
PATTERNS = [
    lambda n: bytes(n),
    lambda n: bytes((i * 7 + 3) & 0xFF for i in range(n)),
    lambda n: (b'\x01\x02\x03\x04\xff\xfe\xfd\xfc' * (n // 8 + 1))[:n],
    lambda n: (WORDS[1] * 3 + WORDS[2] + WORDS[0] * 2 + WORDS[2] * 2 + WORDS[1])[:n].ljust(n, b'\x77'),
    lambda n: bytes(((i * i) ^ (i >> 2)) & 0xFF for i in range(n)),
]


def chunks_of(adapter, pieces, key):
    return list(adapter(iter(pieces), params=key))


def tail_start(total, mx):
    return total - 2 * mx


def check_chunks(chunks, data, mn, mx):
    """Properties of one chunk sequence. Returns list of problem names."""
    ps = []
    if b''.join(chunks) != data:
        ps.append('not-lossless')
    if any(len(c) == 0 for c in chunks):
        ps.append('empty-chunk')
    pos = 0
    for c in chunks:
        if pos < tail_start(len(data), mx):
            if not (mn <= len(c) <= mx):
                ps.append('length-out-of-bounds')
                break
            if len(c) % 4:
                ps.append('length-not-aligned')
                break
        pos += len(c)
    return ps


def stable_prefix(chunks, total, mx):
    out, pos = [], 0
    for c in chunks:
        if pos < tail_start(total, mx):
            out.append(c)
        pos += len(c)
    return out


class SourceBroke(Exception):
    pass


def recycled(pieces):
    """Yield memoryviews of a single bytearray that is overwritten for every piece."""
    size = max((len(p) for p in pieces), default=0)
    buf = bytearray(size)
    for p in pieces:
        buf[:len(p)] = p
        for i in range(len(p), size):
            buf[i] = 0xEE
        yield memoryview(buf)[:len(p)]


def adapter_case(args):
    mn, mx, ki, kcuts, lens = args
    key = KEYS[ki]
    ad = A.gclmulchunker(min_length=mn, max_length=mx)
    vs = []
    n = 0
    distinct = set()
    sig0 = {'part': 'adapter', 'max_mod4_nonzero': mx % 4 != 0}
    for L in lens:
        for pi, pat in enumerate(PATTERNS):
            data = pat(L)
            base = chunks_of(ad, [data], key)
            n += 1
            for p in check_chunks(base, data, mn, mx):
                vs.append((dict(sig0, what=p), {'min': mn, 'max': mx, 'key': key, 'data': data, 'pieces': [L]}))
            base_stable = stable_prefix(base, L, mx)
            # determinism: again on the same object; after an unrelated call; after an abandoned call;
            # after a call whose source raised; on a fresh object
            again = chunks_of(ad, [data], key)
            chunks_of(ad, [b'unrelated data of some length....' * 3], KEYS[(ki + 1) % len(KEYS)])
            after_other = chunks_of(ad, [data], key)
            g = ad(iter([b'abandoned stream ' * 8, b'more']), params=key)
            next(g, None)
            del g
            after_abandoned = chunks_of(ad, [data], key)

            def broken():
                yield b'partial input that will not finish' * 2
                raise SourceBroke()

            try:
                list(ad(broken(), params=key))
            except SourceBroke:
                pass
            after_broken = chunks_of(ad, [data], key)
            g1 = ad(iter([b'interleaved-one-' * 6]), params=key)
            next(g1, None)
            inter = chunks_of(ad, [data], key)
            list(g1)
            fresh = chunks_of(A.gclmulchunker(min_length=mn, max_length=mx), [data], key)
            # the same object used with another key must behave like a fresh object with that key
            k2 = KEYS[(ki + 1) % len(KEYS)]
            n += 1
            if chunks_of(ad, [data], k2) != chunks_of(A.gclmulchunker(min_length=mn, max_length=mx), [data], k2):
                vs.append((dict(sig0, what='depends-on-earlier-calls', how='other-key-on-same-object'),
                           {'min': mn, 'max': mx, 'key': k2, 'data': data, 'how': 'other-key-on-same-object'}))
            for label, other in (('repeat', again), ('after-unrelated-call', after_other), ('after-abandoned-call', after_abandoned),
                                 ('after-failed-call', after_broken), ('interleaved-call', inter), ('fresh-object', fresh)):
                n += 1
                if other != base:
                    vs.append((dict(sig0, what='depends-on-earlier-calls', how=label),
                               {'min': mn, 'max': mx, 'key': key, 'data': data, 'how': label}))
            # every segmentation with <= kcuts cut positions
            segs = [()]
            for k in range(1, kcuts + 1):
                segs += list(itertools.combinations(range(0, L + 1), k))
            segs.append(tuple(range(1, L)))  # one-byte pieces
            for cuts in segs:
                bounds = (0,) + cuts + (L,)
                pieces = [data[bounds[i]:bounds[i + 1]] for i in range(len(bounds) - 1)]
                variants = [pieces]
                if 1 <= len(cuts) <= kcuts:
                    # a producer that hands out views of ONE buffer it refills for every piece (readinto-style):
                    # a piece is only valid until the next one is requested
                    n += 1
                    got = chunks_of(ad, recycled(pieces), key)
                    if got != chunks_of(ad, pieces, key):
                        vs.append((dict(sig0, what='depends-on-piece-memory-being-kept', producer='recycled-buffer'),
                                   {'min': mn, 'max': mx, 'key': key, 'data': data, 'pieces': [len(x) for x in pieces],
                                    'lossless': b''.join(got) == data}))
                if len(cuts) <= kcuts:
                    for pos in range(len(pieces) + 1):
                        variants.append(pieces[:pos] + [b''] + pieces[pos:])
                for pcs in variants:
                    n += 1
                    got = chunks_of(ad, pcs, key)
                    distinct.add((L, pi, tuple(len(x) for x in pcs)))
                    probs = check_chunks(got, data, mn, mx)
                    if stable_prefix(got, L, mx) != base_stable:
                        probs.append('depends-on-splitting')
                    for p in probs:
                        vs.append((dict(sig0, what=p, empty_piece=any(len(x) == 0 for x in pcs)),
                                   {'min': mn, 'max': mx, 'key': key, 'data': data, 'pieces': [len(x) for x in pcs],
                                    'got': [len(c) for c in got], 'unsplit': [len(c) for c in base]}))
                        break
    # two streams chunked at the same time by ONE thread (generators advanced alternately): every schedule with
    # at most MAX_SWITCHES switches between them, on the same adapter object and on two objects
    L = max(lens)
    d1, d2 = PATTERNS[0](L), PATTERNS[1 % len(PATTERNS)](L)[::-1]
    p1 = [d1[:L // 3], d1[L // 3:2 * L // 3], d1[2 * L // 3:]]
    p2 = [d2[:L // 2], d2[L // 2:]]
    for same in (True, False):
        a1 = ad
        a2 = ad if same else A.gclmulchunker(min_length=mn, max_length=mx)
        solo = [chunks_of(a1, p1, key), chunks_of(a2, p2, key)]
        for sched in interleavings(len(solo[0]) + 1, len(solo[1]) + 1, MAX_SWITCHES):
            n += 1
            gens = [a1(iter(p1), params=key), a2(iter(p2), params=key)]
            outs = [[], []]
            for w in sched:
                try:
                    outs[w].append(bytes(next(gens[w])))
                except StopIteration:
                    pass
            for w in (0, 1):
                outs[w] += [bytes(c) for c in gens[w]]
            if outs != solo:
                vs.append((dict(sig0, what='depends-on-earlier-calls', how='two-streams-interleaved-on-one-thread'),
                           {'min': mn, 'max': mx, 'key': key, 'data': d1, 'data2': d2, 'same_object': same,
                            'schedule': list(sched), 'interleave': True,
                            'got': [[len(c) for c in o] for o in outs], 'solo': [[len(c) for c in o] for o in solo]}))
                break
    return n, len(distinct), vs


MAX_SWITCHES = 4


def interleavings(n0, n1, max_switches):
    """All sequences with n0 zeros and n1 ones and at most max_switches changes of value."""
    out = []

    def rec(a, b, last, sw, acc):
        if a == 0 and b == 0:
            out.append(tuple(acc))
            return
        for w, left in ((0, a), (1, b)):
            if not left:
                continue
            nsw = sw + (1 if last is not None and w != last else 0)
            if nsw > max_switches:
                continue
            acc.append(w)
            rec(a - (w == 0), b - (w == 1), w, nsw, acc)
            acc.pop()
    rec(n0, n1, None, 0, [])
    return out


def replay_interleave(case):
    mn, mx = case['min'], case['max']
    key = bytes.fromhex(case['key']['!hex'])
    d1, d2 = bytes.fromhex(case['data']['!hex']), bytes.fromhex(case['data2']['!hex'])
    L = len(d1)
    p1 = [d1[:L // 3], d1[L // 3:2 * L // 3], d1[2 * L // 3:]]
    p2 = [d2[:L // 2], d2[L // 2:]]
    a1 = A.gclmulchunker(min_length=mn, max_length=mx)
    a2 = a1 if case['same_object'] else A.gclmulchunker(min_length=mn, max_length=mx)
    solo = [chunks_of(a1, p1, key), chunks_of(a2, p2, key)]
    gens = [a1(iter(p1), params=key), a2(iter(p2), params=key)]
    outs = [[], []]
    for w in case['schedule']:
        try:
            outs[w].append(bytes(next(gens[w])))
        except StopIteration:
            pass
    for w in (0, 1):
        outs[w] += [bytes(c) for c in gens[w]]
    return {'violations': ['two-streams-interleaved-on-one-thread'] if outs != solo else [],
            'got': [[len(c) for c in o] for o in outs], 'solo': [[len(c) for c in o] for o in solo]}


def replay(case):
    if case.get('interleave'):
        return replay_interleave(case)
    mn, mx = case['min'], case['max']
    key = bytes.fromhex(case['key']['!hex'])
    if 'buf' in case:
        import ctypes
        buf = bytes.fromhex(case['buf']['!hex'])
        lib = native.load(common.REPO)
        ch = native._gclmulchunker(mn, mx, key)
        outs = [int(lib.gcl_next_cut(ch._h, ctypes.cast(ctypes.c_char_p(buf + g), ctypes.c_void_p), len(buf), int(case['final'])))
                for g in (b'\x00' * 8, b'\xff' * 8, b'\x55' * 8)]
        ref = RefChunker(mn, mx, key)
        v = []
        if len(set(outs)) != 1:
            v.append('depends-on-memory-after-buffer')
        if not ref.reads_past(len(buf), bool(case['final'])) and ref.next_cut(buf, bool(case['final'])) != outs[0]:
            v.append('differs-from-reference')
        return {'violations': v, 'cuts_by_guard': outs}
    data = bytes.fromhex(case['data']['!hex'])
    ad = A.gclmulchunker(min_length=mn, max_length=mx)
    base = chunks_of(ad, [data], key)
    v = check_chunks(base, data, mn, mx)
    if 'pieces' in case and len(case['pieces']) > 1:
        pcs, pos = [], 0
        for ln in case['pieces']:
            pcs.append(data[pos:pos + ln])
            pos += ln
        got = chunks_of(ad, pcs, key)
        v += check_chunks(got, data, mn, mx)
        if stable_prefix(got, len(data), mx) != stable_prefix(base, len(data), mx):
            v.append('depends-on-splitting')
    return {'violations': v, 'unsplit': [len(c) for c in base]}


def main():
    t = common.tier()
    chk = common.Check(PID, 'exploration')
    limit, max_words = (10, 5) if t == 'quick' else (13, 7)
    cpp = [(mn, mx, ki, max_words) for (mn, mx) in pairs(limit) for ki in range(len(KEYS) if t == 'thorough' else 2)]
    ncpp = nnt = nasan = 0
    for n, nt, na, vs in common.pmap(cpp_case, common.shuffled(cpp, 'cpp'), ordered=False):
        ncpp += n
        nnt += nt
        nasan += na
        for sig, detail in vs:
            chk.violation(sig, detail)
    chk.sample({'part': 'cpp', 'min': cpp[0][0], 'max': cpp[0][1], 'key': KEYS[cpp[0][2]], 'buffer': WORDS[1] * 3 + TRAIL[:2],
                'final': 0})
    apairs = [(4, 8), (1, 4), (4, 12), (8, 8), (4, 9), (5, 10)] if t == 'quick' else \
        [(4, 8), (1, 4), (4, 12), (8, 8), (4, 9), (5, 10), (2, 6), (4, 16), (8, 16), (6, 11), (3, 7), (12, 12)]
    acases = []
    for mn, mx in apairs:
        lens = sorted({0, 1, mx - 1, mx, mx + 1, mx + mn, 2 * mx - 1, 2 * mx, 2 * mx + 3, 3 * mx + 1, 4 * mx + 2}
                      | ({5 * mx, 6 * mx + 3} if t == 'thorough' else set()))
        for ki in range(len(KEYS) if t == 'thorough' else 2):
            for L in lens:
                acases.append((mn, mx, ki, 2 if (t == 'quick' or L > 4 * mx + 2) else 3, [L]))
    nad = ndist = 0
    for n, nd, vs in common.pmap(adapter_case, common.shuffled(acases, 'ad'), ordered=False, chunksize=2):
        nad += n
        ndist += nd
        for sig, detail in vs:
            chk.violation(sig, detail)
    chk.sample({'part': 'adapter', 'min': 4, 'max': 8, 'stream_len': 19, 'pieces': [10, 0, 9]})
    chk.coverage.update({
        'evaluations': ncpp + nad, 'distinct_nontrivial': nnt + ndist,
        'rule': 'cpp: every valid (min,max)<=limit x keys x buffers of <=W words from a 3-word alphabet x trailing 0..3 x final; '
                'non-trivial = buffer at least max long with a defined reference. adapter: every segmentation with <=k cuts '
                '(+ empty piece at every position, + one-byte pieces) of streams at the critical lengths x 5 patterns; '
                'distinct = distinct (length, pattern, piece lengths)',
        'cpp_cases': ncpp, 'cpp_asan_flagged': nasan, 'adapter_runs': nad, 'param_pairs_cpp': len(pairs(limit)),
        'param_pairs_adapter': apairs, 'limit': limit, 'max_words': max_words,
    })
    chk.assumptions += ['ctypes glue replaces pybind11 argument conversion', 'x86-64 with PCLMUL']
    return chk.finish()


if __name__ == '__main__':
    sys.exit(common.run_main(main))
