#!/bin/bash
# usage: tools/runall.sh [tier] [seed]  -- run every registered check once, print exit code and wall time
cd /verif; tier="${1:-quick}"; seed="${2:-0}"
for id in $(python3 -c "import json;print(' '.join(c['property_id'] for c in json.load(open('MANIFEST.json'))['checks']))"); do
  s=$(date +%s); VERIF_SEED=$seed ./check $id --tier $tier > /tmp/runall_$id.out 2>&1; rc=$?; e=$(date +%s)
  echo "$id rc=$rc $((e-s))s $(grep -c '^VIOLATION' /tmp/runall_$id.out) violations $(grep -c '^KNOWN-FINDING' /tmp/runall_$id.out) known"
done
