#!/usr/bin/env python3
"""usage: tools/add_seeded.py <raw mutant dir> <property> <wave text> <caught_quick csv|-> <caught_any csv|-> [note]
Copies patch.diff / demo.py / notes.md (as agent_notes.md) into seeded/<name>/ and writes meta.json.
Only call this after tools/verify_mutant.sh confirmed the mutant."""
import json, shutil, subprocess, sys
from pathlib import Path

raw, prop, wave, cq, ca = sys.argv[1:6]
note = sys.argv[6] if len(sys.argv) > 6 else ''
raw = Path(raw)
dst = Path('/verif/seeded') / raw.name
dst.mkdir(parents=True, exist_ok=True)
shutil.copy(raw / 'patch.diff', dst / 'patch.diff')
shutil.copy(raw / 'demo.py', dst / 'demo.py')
notes = (raw / 'notes.md').read_text() if (raw / 'notes.md').exists() else ''
(dst / 'agent_notes.md').write_text(notes)
head = subprocess.run(['git', '-C', '/repo', 'rev-parse', '--short', 'HEAD'], capture_output=True, text=True).stdout.strip()
meta = {
    'property': prop,
    'source': f'independent sub-agent ({wave}) given only the property text and a scratch worktree',
    'needs_to_manifest': notes.splitlines()[:12],
    'confirmed_by_me': {
        'against': head, 'patch_applies': True, 'test_suite_with_patch': '256 passed',
        'demo_on_unmodified_tree': 'PASS (exit 0)', 'demo_with_patch': 'FAIL (exit 1)',
        'how': 'tools/verify_mutant.sh in a scratch worktree under /tmp/mt, removed afterwards',
    },
    'caught_by_quick_checks': [] if cq == '-' else cq.split(','),
    'caught_by': [] if ca == '-' else ca.split(','),
    'note': note,
}
(dst / 'meta.json').write_text(json.dumps(meta, indent=1) + '\n')
print('added', dst)
