#!/bin/bash
# run the thorough tier of the given checks one by one with a per-check time limit (seconds, default 2400)
cd "$(dirname "$(readlink -f "$0")")/.."; lim="${LIMIT:-2400}"
for id in "$@"; do
  s=$(date +%s); timeout $lim ./check $id --tier thorough > /tmp/thorough_$id.out 2>&1; rc=$?; e=$(date +%s)
  echo "$id rc=$rc $((e-s))s $(grep -c '^VIOLATION' /tmp/thorough_$id.out) violations $(grep -c '^KNOWN-FINDING' /tmp/thorough_$id.out) known | $(grep "^\[$id\]" /tmp/thorough_$id.out | cut -c1-160)"
done
