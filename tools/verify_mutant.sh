#!/bin/bash
# usage: tools/verify_mutant.sh <mutant dir>  -- confirm: demo passes on HEAD, patch applies, suite passes with patch, demo fails with patch
m="$(readlink -f "$1")"; name="$(basename "$m")"; wt="/tmp/mt/verify-$name-$$"
mkdir -p /tmp/mt
git -C /repo worktree add -q --detach "$wt" HEAD || { echo "$name WORKTREE-FAIL"; exit 3; }
cd "$wt"
timeout 600 /venv/bin/python "$m/demo.py" > "/tmp/mt/$name.clean.out" 2>&1; clean=$?
if git apply "$m/patch.diff" 2>/dev/null || git apply --3way "$m/patch.diff" 2>/dev/null; then applied=yes; else applied=no; fi
suite="-"; demo="-"
if [ $applied = yes ]; then
  suite=$(timeout 900 /venv/bin/python -m pytest -q -p no:cacheprovider --timeout=900 2>&1 | tail -1 | grep -o "[0-9]* passed\|[0-9]* failed" | tr '\n' ' ')
  timeout 600 /venv/bin/python "$m/demo.py" > "/tmp/mt/$name.mut.out" 2>&1; demo=$?
fi
cd /; git -C /repo worktree remove --force "$wt"
echo "$name applied=$applied demo_clean_rc=$clean suite='$suite' demo_mutant_rc=$demo"
