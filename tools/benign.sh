#!/bin/bash
# usage: tools/benign.sh <patch.diff> [tier]  -- run EVERY check against a scratch worktree with a (supposedly
# property-preserving) patch applied; any non-zero exit is a false alarm or a harness crash to look into
patch="$(readlink -f "$1")"; tier="${2:-quick}"
name="$(basename "$(dirname "$patch")")-benign-$$"
wt="/tmp/mt/$name"; ev="/tmp/mt-ev/$name"
mkdir -p /tmp/mt "$ev"
git -C /repo worktree add -q --detach "$wt" HEAD || exit 3
if ! git -C "$wt" apply "$patch" 2>/dev/null && ! git -C "$wt" apply --3way "$patch" 2>/dev/null; then echo "PATCH DOES NOT APPLY: $patch"; git -C /repo worktree remove --force "$wt"; exit 3; fi
cd /verif; bad=0
for id in $(python3 -c "import json;print(' '.join(c['property_id'] for c in json.load(open('MANIFEST.json'))['checks']))"); do
  REPLICAT_SRC="$wt" VERIF_EVIDENCE_DIR="$ev" timeout ${MUT_TIMEOUT:-1800} ./check "$id" --tier "$tier" > "$ev/$id.txt" 2>&1; rc=$?
  nk=$(grep -c '^KNOWN-FINDING' "$ev/$id.txt")
  if [ $rc -ne 0 ]; then bad=1; echo "!! $(basename "$(dirname "$patch")") vs $id: exit=$rc"; grep -m3 -A1 '^VIOLATION' "$ev/$id.txt" | cut -c1-400; grep -E "HARNESS-ERROR|Traceback|Error" "$ev/$id.txt" | tail -3 | cut -c1-300; fi
done
echo "== $(basename "$(dirname "$patch")") benign run: $([ $bad = 0 ] && echo all-quiet || echo ALARMS)"
git -C /repo worktree remove --force "$wt"; rm -rf "$ev"
exit $bad
