#!/bin/bash
# usage: tools/regress_seeded.sh [pattern]  -- for every seeded change whose meta.json names a quick check that catches it,
# run that check against the change again and report the ones that are no longer reported (exit != 1)
cd /verif
pat="${1:-.}"
python3 - "$pat" <<'PY' > /tmp/regress_list.txt
import json, sys, re, pathlib
for d in sorted(pathlib.Path('/verif/seeded').iterdir()):
    if not re.search(sys.argv[1], d.name): continue
    if not (d / 'meta.json').exists(): continue
    m = json.loads((d / 'meta.json').read_text())
    q = m.get('caught_by_quick_checks') or []
    if q: print(d.name, q[0])
PY
cat /tmp/regress_list.txt | xargs -P ${PAR:-4} -L1 sh -c 'out=$(MUT_TIMEOUT=900 tools/mut.sh seeded/$0/patch.diff $1 quick 2>&1 | head -1); case "$out" in *"exit=1"*) echo "ok   $0 $1";; *) echo "LOST $0 $1 :: $out";; esac'
