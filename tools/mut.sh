#!/bin/bash
# usage: tools/mut.sh <patch.diff> <check id> [tier]   -- run a check against a scratch worktree with the patch applied
patch="$(readlink -f "$1")"; id="$2"; tier="${3:-quick}"
name="$(basename "$(dirname "$patch")")-$id-$$"
wt="/tmp/mt/$name"
mkdir -p /tmp/mt /tmp/mt-ev/$name
git -C /repo worktree add -q --detach "$wt" HEAD || exit 3
if ! git -C "$wt" apply "$patch" 2>/dev/null && ! git -C "$wt" apply --3way "$patch" 2>/dev/null; then echo "PATCH DOES NOT APPLY: $patch"; git -C /repo worktree remove --force "$wt"; exit 3; fi
cd /verif
REPLICAT_SRC="$wt" VERIF_EVIDENCE_DIR="/tmp/mt-ev/$name" timeout ${MUT_TIMEOUT:-1800} ./check "$id" --tier "$tier" > "/tmp/mt-ev/$name/out.txt" 2>&1
rc=$?
nv=$(grep -c '^VIOLATION' "/tmp/mt-ev/$name/out.txt")
echo "== $(basename "$(dirname "$patch")") vs $id ($tier): exit=$rc violations=$nv"
grep -m3 -A1 '^VIOLATION' "/tmp/mt-ev/$name/out.txt" | cut -c1-300
grep -E "^\[$id\]|HARNESS-ERROR|Traceback" "/tmp/mt-ev/$name/out.txt" | tail -3 | cut -c1-300
git -C /repo worktree remove --force "$wt"
rm -rf "/tmp/mt-ev/$name"
exit $rc
